#!/bin/bash
# Run once after a fresh restore, offline: warms the Go build cache for the simulation binaries.
set -u
export GOFLAGS=-mod=mod GOPROXY=off GOSUMDB=off GOTOOLCHAIN=local
GO=/opt/veriftools/go1.26.8/bin/go
[ -x "$GO" ] || GO=go1.26.8
here="$(cd "$(dirname "$0")" && pwd)"
mkdir -p "$here/.build"
cp /repo/go.sum "$here/sim/go.sum" 2>/dev/null
cd "$here/sim" || exit 1
"$GO" build -o "$here/.build/simcheck" ./cmd/simcheck || exit 1
"$GO" test -c -o "$here/.build/props.test" ./props || exit 1
# warm the -race build cache (standard library with race instrumentation) for C13
"$GO" test -c -race -o "$here/.build/props-racewarm.test" ./props || exit 1
rm -f "$here/.build/props-racewarm.test"
echo "setup ok"
