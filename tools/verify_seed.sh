#!/bin/bash
# usage: tools/verify_seed.sh <dir with patch.diff demo_test.go meta.txt>
# Confirms in a scratch worktree (outside /repo and /verif) that the change applies, builds,
# leaves the stable-pass suite green, and that the demo fails with it and passes without it.
set -u
d="$(cd "$1" && pwd)"
wt=/tmp/wt/verify-$$
git -C /repo worktree add -q --detach "$wt" HEAD || exit 2
trap 'git -C /repo worktree remove --force "$wt" >/dev/null 2>&1' EXIT
cd "$wt" || exit 2
place=$(grep -m1 -o 'place in: *[^ ]*' "$d/demo_test.go" | sed 's/place in: *//')
case "$place" in ""|"."|"./"|"repo"|"root"|"<root>"|"/") place=".";; esac
place="${place%/}"
[ -d "$place" ] || place="."
name=$(grep -m1 -o 'func TestSeeded[A-Za-z0-9_]*' "$d/demo_test.go" | sed 's/func //')
git apply --check "$d/patch.diff" 2>/dev/null || { echo "RESULT applies=no"; exit 1; }
git apply "$d/patch.diff"
files=$(git diff --name-only | tr '\n' ' ')
go build ./... 2>/dev/null && b=yes || b=no
base=$(unshare -n sh -c "ip link set lo up; python3 /verif/tools/baseline.py $wt 2>/dev/null" | head -1)
cp "$d/demo_test.go" "$place/zz_seeded_demo_test.go"
( cd "$place" && go test -vet=off -count=1 -run "^${name}\$" . >/tmp/seed_with.$$ 2>&1 ); with=$?
git checkout -- . 
( cd "$place" && go test -vet=off -count=1 -run "^${name}\$" . >/tmp/seed_without.$$ 2>&1 ); without=$?
rm -f "$place/zz_seeded_demo_test.go"
echo "RESULT applies=yes builds=$b files=[$files] baseline=[$base] demo=$name dir=$place with_patch_exit=$with without_patch_exit=$without"
[ "$with" != 0 ] || { echo "--- demo did not fail with the patch:"; tail -5 /tmp/seed_with.$$; }
[ "$without" = 0 ] || { echo "--- demo did not pass without the patch:"; tail -8 /tmp/seed_without.$$; }
rm -f /tmp/seed_with.$$ /tmp/seed_without.$$
