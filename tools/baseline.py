#!/usr/bin/env python3
"""Run go-mail's own test suite (guard off: there is no guard, nothing is committed to /repo but
fix: commits) and compare with the stable-pass set of /root/.vp/BASELINE.json.
Exit 0 iff every stable-pass test passes."""
import json, subprocess, sys, os
base = json.load(open('/root/.vp/BASELINE.json'))
want = set(base['stable_pass'])
repo = sys.argv[1] if len(sys.argv) > 1 else '/repo'
env = dict(os.environ)
for k in ('GOFLAGS', 'GOTOOLCHAIN'):
    env.pop(k, None)
p = subprocess.run(['go', 'test', '-json', '-vet=off', '-count=1', '-timeout', '25m', './...'], cwd=repo, env=env,
                   stdout=subprocess.PIPE, stderr=subprocess.STDOUT, text=True)
res = {}
for line in p.stdout.splitlines():
    try:
        e = json.loads(line)
    except Exception:
        continue
    if e.get('Test') and e.get('Action') in ('pass', 'fail', 'skip'):
        res[e['Package'] + '::' + e['Test']] = e['Action']
missing = sorted(t for t in want if res.get(t) != 'pass')
print(f"stable-pass tests: {len(want)}; passing now: {len(want) - len(missing)}; not passing: {len(missing)}")
for t in missing[:40]:
    print("  NOT PASSING:", t, res.get(t))
sys.exit(1 if missing else 0)
