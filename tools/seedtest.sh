#!/bin/bash
# usage: tools/seedtest.sh <patch.diff> <PROP> [<PROP>...]
# Applies a seeded change to /repo, runs the quick checks named, prints their verdicts, and
# restores /repo (git checkout -- .). Never commits anything.
set -u
patch="$1"; shift
cd /repo || exit 2
if [ -n "$(git status --porcelain)" ]; then echo "/repo is not clean"; exit 2; fi
git apply --check "$patch" || { echo "patch does not apply"; exit 2; }
git apply "$patch"
trap 'git -C /repo checkout -- . ; git -C /repo clean -fdq' EXIT
export VERIF_EVIDENCE_DIR=/tmp/seedrun/evidence VERIF_REPLAY_DIR=/tmp/seedrun/replays
mkdir -p $VERIF_EVIDENCE_DIR $VERIF_REPLAY_DIR
cd /verif
for p in "$@"; do
  tier="${SEED_TIER:-quick}"
  out=$(./check "$p" "$tier" 2>&1); rc=$?
  nv=$(echo "$out" | grep -c '^VIOLATION')
  echo "== $p exit=$rc violations=$nv"
  echo "$out" | grep '^  tag:' | head -8
  echo "$out" | grep '^INFRA' | head -3
done
