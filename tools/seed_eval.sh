#!/bin/bash
# usage: tools/seed_eval.sh <ID> <m> [extra props...]   e.g. tools/seed_eval.sh C04 m1
id="$1"; m="$2"; shift 2
d=/tmp/seeded_out/$id/$m
[ -f "$d/patch.diff" ] || { echo "$id/$m: no patch"; exit 1; }
echo "######## $id/$m"
/verif/tools/verify_seed.sh "$d" 2>&1 | grep -A8 RESULT
/verif/tools/seedtest.sh "$d/patch.diff" "$id" "$@" 2>&1
