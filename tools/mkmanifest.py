#!/usr/bin/env python3
"""Regenerates /verif/MANIFEST.json from the table below (keeps it schema-valid)."""
import json, subprocess
NA = [
 ("C01", "pure function of builder calls and content bytes; no schedule, clock, peer or fault occurs in the statement or its quantifier (DESIGN.md section 5)"),
 ("C02", "pure function of the strings given to the setters; nothing for a simulator to vary (DESIGN.md section 5)"),
 ("C08", "pure function of message shape, content and key; no nondeterminism or fault in the statement (DESIGN.md section 5)"),
 ("C10", "pure function composition render/parse/render; nothing for a simulator to vary (DESIGN.md section 5)"),
]
CHECKS = {
 "C07": ("fault_enumeration", "5/C07",
   "The finite product TLS policy x auth configuration x host kind x adversarial server/TLS behaviour x AUTH offer x TLS version is enumerated for DialAndSend; a byte-exact tap of everything the client wrote decides what went out in clear (commands under mandatory TLS, the password in every encoding), the server's view inside TLS decides whether anything was sent after an unverifiable certificate.",
   "Trusted: the tap, the TLS-record scanner, crypto/tls, the simulator PKI. Implicit TLS only through a TLS-wrapping dial function (go-mail's own tls.Dialer path needs a real socket).",
   "deterministic simulation: enumerated adversarial server/TLS behaviours, byte-exact cleartext tap"),
 "C14": ("exploration", "5/C14",
   "Seeded search over credentials (specials, non-ASCII, control characters), salts, iteration counts, nonces, challenges and TLS versions against independent reference SASL verifiers validated on the RFC vectors; acceptance must coincide with credential equality, and client nonces must be pairwise distinct under a deterministic crypto/rand, including a retry on the same Auth value.",
   "Trusted: reference SASL servers (own implementations, crypto/pbkdf2), byte-wise credential comparison on code points where SASLprep and PRECIS agree.",
   "deterministic simulation: seeded credential/parameter search against reference verifiers, seeded crypto/rand for nonce freshness"),
 "C15": ("fault_enumeration", "5/C15",
   "Every server message sequence of length <= 4 (thorough: 5) over the property's 11-symbol alphabet is played by a scripted SCRAM adversary against all four mechanism variants (PLUS over real TLS); success requires a valid server-first and server-final in the running exchange, and an invalid server-final must never be acknowledged nor an invalid server-first answered with a proof.",
   "Trusted: the adversary's bookkeeping of which messages are valid for the running exchange; the reference SCRAM computation. Two known findings (bare 235 accepted) are listed in known_findings.json.",
   "deterministic simulation: exhaustive protocol tree of adversarial server messages"),
 "C16": ("exploration", "5/C16",
   "Seeded search over auth type x 14 server scripts (success, refusal at each step, malformed/extra challenges, disconnect, stall to timeout) x logger kind with high-entropy credentials; every log record and formatted logger output is scanned for every encoding of the secret and for the SASL lines the server actually received; a control group with auth-data logging on proves the scan can see them; the post-auth MAIL FROM must appear.",
   "Trusted: the list of searched encodings (raw, base64 variants, hex, exact SASL lines); JSON output is also decoded field by field.",
   "deterministic simulation: seeded server failure scripts during AUTH, log capture and secret scan with control group"),
 "C09": ("exploration", "5/C09",
   "Seeded search over stored EMLs (builder renderings, repository fixtures, random bytes) damaged by storage faults at token-biased offsets and read back through fault-injecting readers or the string/file entry points; every parse is monitored for panics and for termination. Sampling of an unbounded input space, not proof.",
   "Trusted: the mutation engine and reader; termination judged by a 10 s wall-clock watchdog (re-checked once).",
   "fault injection on stored bytes and reader behaviour (simulated disk), panic/termination monitor"),
 "C11": ("exploration", "5/C11",
   "Seeded histories of render operations over all output paths (WriteTo, Write, Reader, UpdateReader, WriteToFile, WriteToTempFile, Send through the simulated network) interleaved with failed renders (failing sink, failing producer), on generated messages over all file sources and encodings, with the virtual clock advanced and the seeded randomness running between operations; every successful render is compared with the first.",
   "Trusted: simulation kernel/transport/reference server for the Send path, fault-injecting producers and sink. Go's map iteration order has no seam: caught by repetition (>= 6 renders per history; replays repeat up to 20 times).",
   "deterministic simulation: seeded operation histories with injected render failures, virtual clock, first-render reference"),
 "C18": ("exploration", "5/C18",
   "Seeded search over header values and content lengths around the 3/57/76 wrapping points, each message rendered under two independently drawn producer chunkings; a structural MIME reader checks CRLF discipline, line lengths and header round-trip on the raw bytes, and the two renderings must be byte-identical.",
   "Trusted: the oracle's MIME walker and mime.WordDecoder. One known finding (part headers below top level are not folded) is listed in known_findings.json.",
   "schedule exploration over producer write chunkings, line-discipline scanner, chunking-independence check"),
 "C03": ("exploration", "5/C03",
   "Seeded swarm search over batches of generated messages with faults placed inside in-flight operations: producer failures at three positions, transport reset / failing write / peer-stops-reading at byte offsets of eight classes located by a fault-free probe run, scripted 4yz/5yz/disconnect/lost-reply at MAIL..RSET. The reference server's commit log decides byte-identity, at-most-once and the IsDelivered equivalence exactly; sampling, not proof.",
   "Trusted: simulation kernel/transport, reference server, the harness' own healthy re-render as 'complete rendering'. Two-generals relaxation: IsDelivered may be false when the 2yz reply was not delivered completely.",
   "deterministic simulation: seeded fault schedules (producer, transport, reply script), commit-log oracle"),
 "C04": ("fault_enumeration", "5/C04",
   "For seeded client/server configurations every single-fault reply script (each command position x {4yz, 5yz, disconnect}) is enumerated, the thorough tier adds every pair; sampled multi-fault scripts on fresh configurations on top. A strict RFC 5321 automaton judges every line it receives, unique reply tokens decide attribution.",
   "Trusted: the reference automaton's reading of RFC 5321 section 4.1.4 (a refused DATA leaves the transaction open). The SASL cancel line after a final AUTH reply (inherited net/smtp behaviour pinned by go-mail's tests) is recorded but not judged.",
   "deterministic simulation: enumerated reply scripts, reference-automaton oracle, reply-token attribution"),
 "C12": ("fault_enumeration", "5/C12",
   "Per message shape the destination fails at every byte offset of the output in four modes and every producer fails at three positions (S/MIME: also only in the first or second invocation), plus sampled combinations; return value, byte count and panics are checked on every render.",
   "Trusted: the fault-injecting sink and producers. S/MIME-signed shapes sweep offsets with a stride (signing cost), stated in the evidence.",
   "fault injection on the Writer/producer seams: exhaustive sink offsets per shape, producer failures"),
 "C20": ("fault_enumeration", "5/C20",
   "All 200 reply codes 400..599 x four text forms x five command positions x ENHANCEDSTATUSCODES on/off are enumerated in seeded batches, plus sampled multi-recipient rejections; every SendError field is compared with the replies the reference server actually sent for that message.",
   "Trusted: reference server history as ground truth; rejected-recipient list parsed from SendError.Error() (no accessor exists).",
   "deterministic simulation: enumerated reply codes/forms/positions, server-history oracle"),
 "C17": ("fault_enumeration", "5/C17",
   "Every position at which the peer can go silent (each server message of dial and send at three granularities, byte offsets inside the TLS handshake, peer stops reading) is enumerated for DialWithContext, DialAndSend, Send and Reset across TLS modes and auth classes; the simulated clock decides exactly whether the call returned within the timeout, and kernel quiescence decides 'blocks for ever' without any wall-clock guess.",
   "Trusted: the simulation kernel and transport (sim/), the reference server, Go's testing/synctest virtual clock. Bound per DESIGN.md section 5/C17 (one timeout + 1 ms; two for a mid-line stall; +5 s TLS close_notify when the peer stopped reading).",
   "deterministic simulation: enumerated stall faults, virtual-clock bound, quiescence detection"),
 "C19": ("fault_enumeration", "5/C19",
   "Every failing step of dial and dial-and-send (each command position x seven failure kinds, missing/refused STARTTLS, three TLS handshake failures, AUTH missing/unsupported/wrong password/each step, transport reset) is enumerated across TLS policies and auth types; the simulated connection records Close with the kernel step, so 'closed by the time the call returns' is decided exactly.",
   "Trusted: simulation kernel/transport, reference server and SASL servers, crypto/tls. Calls that never return are C17's subject and not judged.",
   "deterministic simulation: enumerated reply/disconnect/TLS faults, Close tracking on the simulated connection"),
}
def main():
    checks = []
    for pid in sorted(CHECKS):
        cat, ref, text, note, tech = CHECKS[pid]
        checks.append({
            "property_id": pid,
            "quick_cmd": f"./check {pid} quick",
            "thorough_cmd": f"./check {pid} thorough",
            "evidence_file": f"/verif/evidence/{pid}.json",
            "replay_cmd_template": "./check --replay {path}",
            "engine": "simcheck",
            "level_claimed": {"category": cat, "text": text, "design_ref": "DESIGN.md section " + ref},
            "level_note": note,
            "technique": tech,
        })
    claimed = set(CHECKS)
    na = [{"property_id": p, "reason": r} for p, r in NA]
    ALL = [f"C{i:02d}" for i in range(1, 21)]
    for p in ALL:
        if p not in claimed and p not in dict(NA):
            na.append({"property_id": p, "reason": "check not built yet in this revision (planned, DESIGN.md section 5); not claimed until it is sound"})
    commits = subprocess.check_output(["git", "-C", "/repo", "log", "--format=%h %s"], text=True).splitlines()
    m = {
        "version": 1,
        "setup_cmd": "./setup.sh",
        "hooks": {
            "guard": "none (no hook is committed to /repo: the only instrumentation, C13's lock-call rewriting, is applied to a scratch copy at check time)",
            "enable": "checks build /repo's working tree as it is (replace directive in sim/go.mod); C13 builds an instrumented scratch copy with -race",
            "baseline_off_cmd": "python3 /verif/tools/baseline.py /repo",
            "source_commits": [],
            "add_only": True,
        },
        "engines": [{"name": "simcheck", "path": "/verif/sim", "serves_properties": sorted(claimed),
                     "kind_free_text": "deterministic simulation with fault injection: seeded serialising kernel on a testing/synctest bubble, simulated TCP, reference SMTP/SASL/TLS server, per-property scenario generators, oracles, minimiser and replay"}],
        "checks": checks,
        "not_applicable": na,
        "notes": "fix: commits in /repo (genuine defects found by these checks): " + "; ".join(c for c in commits if " fix:" in c),
    }
    json.dump(m, open("/verif/MANIFEST.json", "w"), indent=1)
main()
