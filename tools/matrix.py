#!/usr/bin/env python3
"""usage: tools/matrix.py [-j N] [<seeded-id> ...]
Runs every stored seeded change (or the named ones) against the checks that are meant to catch it,
each in its own scratch worktree (tools/seedtest_wt.sh; /repo is not touched), and records the
result as "final_run" in seeded/<id>/meta.json. Prints one line per change."""
import json, os, re, subprocess, sys
from concurrent.futures import ThreadPoolExecutor
ROOT = os.path.dirname(os.path.dirname(os.path.abspath(__file__)))
EXTRA = {"C04-w3-m2": ["C03"], "C06-w3-m1": ["C18"], "C13-w3-m2": ["C17"], "C06-w4-m1": ["C05"], "C06-w4-m2": ["C13"], "C13-w4-m2": ["C17"], "C03-w4-m2": ["C12"], "C04-w5-m2": ["C13"], "C05-w5-m1": ["C06"], "C05-w5-m2": ["C06"], "C13-w5-m2": ["C03"], "C04-w2-m1": ["C03"], "C05-w6-m2": ["C06"], "C06-w6-m1": ["C04"], "C13-w6-m1": ["C04"], "C15-w6-m2": ["C14"], "C20-w6-m1": ["C04"], "C20-w6-m2": ["C03"], "C13-w7-m2": ["C03"], "C15-w7-m2": ["C14"], "C18-w7-m1": ["C11"], "C04-w8-m2": ["C19"], "C05-w8-m1": ["C06"], "C13-w8-m2": ["C17"], "C11-w8-m2": ["C06"], "C20-w9-m2": ["C04"], "C13-w9-m2": ["C03"]}
def props_for(sid, meta):
    fr = meta.get("final_run") or {}
    cmd = fr.get("cmd", "")
    m = re.findall(r"\bC\d\d\b", cmd.split("patch.diff")[-1]) if "patch.diff" in cmd else []
    if m:
        return m
    return [meta["property"]] + EXTRA.get(sid, [])
def run(sid):
    d = os.path.join(ROOT, "seeded", sid)
    meta = json.load(open(os.path.join(d, "meta.json")))
    if meta.get("superseded"):
        print("%-12s superseded (no longer breaks the property at HEAD; see its meta.json)" % sid, flush=True)
        return
    if meta.get("needs_rebase"):
        print("%-12s needs rebase (does not apply to /repo HEAD any more; see its meta.json)" % sid, flush=True)
        return
    props = props_for(sid, meta)
    out = subprocess.run([os.path.join(ROOT, "tools/seedtest_wt.sh"), os.path.join(d, "patch.diff")] + props,
                         capture_output=True, text=True).stdout
    results, tags = [], []
    for line in out.splitlines():
        m = re.match(r"== (C\d\d) exit=(\d+) violations=(\d+)", line)
        if m:
            results.append([m.group(1), m.group(2), m.group(3)])
        m = re.match(r"\s+tag: (.*)", line)
        if m:
            tags.append(m.group(1))
    meta["final_run"] = {"cmd": "tools/seedtest_wt.sh seeded/%s/patch.diff %s" % (sid, " ".join(props)), "results": results, "tags": tags}
    json.dump(meta, open(os.path.join(d, "meta.json"), "w"), indent=1, ensure_ascii=False)
    caught = [r[0] for r in results if r[1] == "1"]
    infra = [r[0] for r in results if r[1] not in ("0", "1")]
    print("%-12s %-8s by=%s%s tags=%s" % (sid, "CAUGHT" if caught else "missed", ",".join(caught) or "-", (" INFRA=" + ",".join(infra)) if infra else "", ";".join(tags[:3])), flush=True)
def main():
    args = sys.argv[1:]
    j = 3
    if args[:1] == ["-j"]:
        j = int(args[1]); args = args[2:]
    ids = args or sorted(os.listdir(os.path.join(ROOT, "seeded")))
    with ThreadPoolExecutor(j) as ex:
        list(ex.map(run, ids))
main()
