#!/usr/bin/env python3
"""usage: tools/ingest_wave.py <wave> <srcdir> <PROP> <mN> [extra props to try]
Confirms a sub-agent's change (tools/verify_seed.sh), stores it as seeded/<PROP>-w<wave>-<mN>/ and
records the first run of the property's check (tools/seedtest_wt.sh) in its meta.json."""
import json, os, re, shutil, subprocess, sys
ROOT = os.path.dirname(os.path.dirname(os.path.abspath(__file__)))
wave, src, prop, mn = sys.argv[1:5]
extra = sys.argv[5:]
sid = "%s-w%s-%s" % (prop, wave, mn)
v = subprocess.run([os.path.join(ROOT, "tools/verify_seed.sh"), src], capture_output=True, text=True).stdout
line = [l for l in v.splitlines() if l.startswith("RESULT")]
line = line[0] if line else "RESULT none"
ok = ("applies=yes" in line and "builds=yes" in line and "not passing: 0" in line
      and "without_patch_exit=0" in line and not re.search(r"with_patch_exit=0\b", line))
print(sid, line)
if not ok:
    print(sid, "NOT CONFIRMED\n" + v)
    sys.exit(1)
d = os.path.join(ROOT, "seeded", sid)
os.makedirs(d, exist_ok=True)
shutil.copy(os.path.join(src, "patch.diff"), d)
shutil.copy(os.path.join(src, "demo_test.go"), d)
head = subprocess.run(["git", "-C", "/repo", "rev-parse", "--short", "HEAD"], capture_output=True, text=True).stdout.strip()
props = [prop] + extra
out = subprocess.run([os.path.join(ROOT, "tools/seedtest_wt.sh"), os.path.join(d, "patch.diff")] + props, capture_output=True, text=True).stdout
results, tags = [], []
for l in out.splitlines():
    m = re.match(r"== (C\d\d) exit=(\d+) violations=(\d+)", l)
    if m:
        results.append([m.group(1), m.group(2), m.group(3)])
    m = re.match(r"\s+tag: (.*)", l)
    if m:
        tags.append(m.group(1))
caught = any(r[1] == "1" for r in results)
run = {"cmd": "tools/seedtest_wt.sh seeded/%s/patch.diff %s" % (sid, " ".join(props)), "results": results, "tags": tags}
meta = {
    "property": prop, "wave": int(wave),
    "origin": "written by an independent sub-agent that saw only the property text, the ideas of earlier waves for this property (to avoid repeats) and its own scratch worktree of /repo",
    "what_it_is_and_needs_to_manifest": open(os.path.join(src, "meta.txt")).read(),
    "confirmed_by_me": "tools/verify_seed.sh in a scratch worktree at /repo HEAD %s: %s" % (head, line),
    "caught_by_first_run_of_check": caught,
    "check_strengthened_or_note": "",
    "first_run": run, "final_run": run,
}
json.dump(meta, open(os.path.join(d, "meta.json"), "w"), indent=1, ensure_ascii=False)
print("%-12s %s results=%s tags=%s" % (sid, "CAUGHT" if caught else "missed", results, ";".join(tags[:4])))
