#!/bin/bash
# usage: tools/seedtest_wt.sh <patch.diff> <PROP> [<PROP>...]
# Like seedtest.sh, but leaves /repo alone: the change is applied in a scratch worktree (outside
# /repo and /verif) and the checks are pointed at it with VERIF_REPO. Several of these can run at
# the same time. The worktree and its build output are removed afterwards.
set -u
patch="$(readlink -f "$1")"; shift
wt=/tmp/wt/seed-$$
git -C /repo worktree add -q --detach "$wt" HEAD || exit 2
bd=/tmp/seedrun/build-$$
trap 'git -C /repo worktree remove --force "$wt" >/dev/null 2>&1; rm -rf "$bd"' EXIT
git -C "$wt" apply "$patch" || { echo "patch does not apply"; exit 2; }
export VERIF_REPO="$wt" VERIF_BUILD_DIR="$bd" VERIF_EVIDENCE_DIR=/tmp/seedrun/evidence-$$ VERIF_REPLAY_DIR=/tmp/seedrun/replays-$$
mkdir -p "$bd" "$VERIF_EVIDENCE_DIR" "$VERIF_REPLAY_DIR"
cd /verif
for p in "$@"; do
  out=$(./check "$p" "${SEED_TIER:-quick}" 2>&1); rc=$?
  echo "== $p exit=$rc violations=$(echo "$out" | grep -c '^VIOLATION')"
  echo "$out" | grep '^  tag:' | head -8
  echo "$out" | grep '^INFRA' | head -3
done
rm -rf "$VERIF_EVIDENCE_DIR" "$VERIF_REPLAY_DIR"
