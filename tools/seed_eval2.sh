#!/bin/bash
# usage: tools/seed_eval2.sh <dir> <PROP> [more props]   -> verify + test in scratch worktrees
d="$1"; shift
[ -f "$d/patch.diff" ] || { echo "$d: no patch"; exit 1; }
echo "######## $d"
/verif/tools/verify_seed.sh "$d" 2>&1 | grep -A8 RESULT
/verif/tools/seedtest_wt.sh "$d/patch.diff" "$@" 2>&1 | grep -v instrumented
