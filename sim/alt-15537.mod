module verif/sim

go 1.26

require (
	github.com/wneessen/go-mail v0.0.0
	golang.org/x/text v0.22.0
)

replace github.com/wneessen/go-mail => /tmp/wt/seed-15529
