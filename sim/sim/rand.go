package sim

// Rand is a small self-contained PRNG (splitmix64-seeded xoshiro256**). It is deliberately not
// math/rand: its state is a fixed struct touched only in //go:norace methods, so it can be used
// by tasks and kernel under the race detector without creating edges or reports.
type Rand struct{ s [4]uint64 }

func splitmix(x *uint64) uint64 {
	*x += 0x9e3779b97f4a7c15
	z := *x
	z = (z ^ (z >> 30)) * 0xbf58476d1ce4e5b9
	z = (z ^ (z >> 27)) * 0x94d049bb133111eb
	return z ^ (z >> 31)
}

// NewRand seeds a generator.
func NewRand(seed uint64) *Rand {
	r := &Rand{}
	x := seed
	for i := range r.s {
		r.s[i] = splitmix(&x)
	}
	return r
}

// Derive makes an independent generator from this seed and a label.
func Derive(seed uint64, labels ...uint64) uint64 {
	x := seed
	for _, l := range labels {
		x ^= l + 0x9e3779b97f4a7c15 + (x << 6) + (x >> 2)
		_ = splitmix(&x)
	}
	return splitmix(&x)
}

func rotl(x uint64, k uint) uint64 { return (x << k) | (x >> (64 - k)) }

//go:norace
func (r *Rand) Uint64() uint64 {
	s := &r.s
	res := rotl(s[1]*5, 7) * 9
	t := s[1] << 17
	s[2] ^= s[0]
	s[3] ^= s[1]
	s[1] ^= s[2]
	s[0] ^= s[3]
	s[2] ^= t
	s[3] = rotl(s[3], 45)
	return res
}

// Intn returns a value in [0,n). n must be > 0.
//
//go:norace
func (r *Rand) Intn(n int) int {
	if n <= 1 {
		return 0
	}
	return int(r.Uint64() % uint64(n))
}

// Range returns a value in [lo,hi].
func (r *Rand) Range(lo, hi int) int {
	if hi <= lo {
		return lo
	}
	return lo + r.Intn(hi-lo+1)
}

// Chance is true with probability num/den.
func (r *Rand) Chance(num, den int) bool { return r.Intn(den) < num }

// Pick returns one element.
func Pick[T any](r *Rand, xs []T) T { return xs[r.Intn(len(xs))] }

// Bytes fills a fresh slice with random bytes.
func (r *Rand) Bytes(n int) []byte {
	b := make([]byte, n)
	for i := range b {
		b[i] = byte(r.Uint64())
	}
	return b
}
