//go:build amd64

package sim

// curG identifies the calling goroutine (see getg_amd64.s).
func curG() uintptr
