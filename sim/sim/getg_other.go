//go:build !amd64

package sim

import (
	"runtime"
	"strconv"
	"strings"
)

// curG identifies the calling goroutine by the number runtime.Stack prints (slow path for
// architectures without the assembly stub).
func curG() uintptr {
	var buf [64]byte
	s := string(buf[:runtime.Stack(buf[:], false)])
	s = strings.TrimPrefix(s, "goroutine ")
	if i := strings.IndexByte(s, ' '); i > 0 {
		n, _ := strconv.ParseUint(s[:i], 10, 64)
		return uintptr(n)
	}
	return 0
}
