// Package sim is the deterministic simulation kernel: a serialising task scheduler on top of a
// testing/synctest bubble (virtual clock, quiescence detection) plus the simulated transport
// (conn.go). Exactly one task runs between two kernel steps; every decision the kernel takes is
// drawn from one PRNG (or from a recorded choice list on replay).
//
// Race-detector discipline (matters for the -race build used by C13, harmless elsewhere): all
// state shared between kernel and tasks is touched only in //go:norace functions and lives in
// fixed structs and pre-sized slices (no maps, no append-growth), and in the -race build tasks
// park by polling in time.Sleep, so the kernel never creates a happens-before edge towards a
// task. See DESIGN.md §3.1.
package sim

import (
	"fmt"
	"runtime/debug"
	"sync"
	"testing/synctest"
	"time"
)

// Cond is what a parked task waits for.
type Cond interface {
	// Enabled reports whether the task can make progress at virtual time now (ns since epoch).
	Enabled(now int64) bool
	// NextTime is the earliest future instant at which Enabled may turn true by the passing of
	// time alone; Never if only another task's action can enable it.
	NextTime(now int64) int64
}

// Never is the "no future event" time.
const Never = int64(1<<63 - 1)

type readyCond struct{}

//go:norace
func (readyCond) Enabled(int64) bool { return true }

//go:norace
func (readyCond) NextTime(int64) int64 { return Never }

// Ready is a plain yield.
var Ready Cond = readyCond{}

type sleepCond struct{ until int64 }

//go:norace
func (s *sleepCond) Enabled(now int64) bool { return now >= s.until }

//go:norace
func (s *sleepCond) NextTime(now int64) int64 { return s.until }

const (
	tNew = iota
	tParked
	tRunning
	tDone
	// tExternal: the task blocked durably on something the kernel does not know (a channel of
	// net/textproto's pipeline, a WaitGroup, ...). It is neither parked nor running; the kernel
	// goes on with the other tasks and picks it up again when it next parks or finishes.
	tExternal
)

// Task is one simulated thread of control.
type Task struct {
	ID    int
	Name  string
	k     *Kernel
	state int
	cond  Cond
	point int // yield-point class, for the schedule hash
	parkState
	Panic      any
	PanicStack string
	fn         func()
	// Daemon tasks (servers) do not keep a run alive: once every non-daemon task is done and no
	// daemon can make progress any more, the run is complete.
	Daemon bool
	// gid identifies the goroutine that runs the task (curG).
	gid uintptr
	// Adopted: a goroutine that the program under test started itself (go text.Close(), the
	// interrupter of a TLS handshake, a watcher of a context) and that touched the simulated
	// world. From its first scheduling point on it is a daemon task like any other: it runs only
	// when the kernel picks it. The kernel cannot see it end; an adopted task that never parks
	// again counts as finished.
	Adopted bool
}

// Verdict of a kernel run.
type Verdict int

const (
	AllDone Verdict = iota
	Quiescent
	StepLimit
	Horizon
)

func (v Verdict) String() string {
	return [...]string{"all-done", "quiescent", "step-limit", "horizon"}[v]
}

const maxTasks = 160
const maxLocks = 1024

// lockEnt mirrors the state of one sync.Mutex / sync.RWMutex the way Go implements it: a writer
// first takes the writers' gate and thereby announces itself (from then on new readers wait),
// then waits for the active readers to leave; Unlock admits every reader that waited behind the
// writer at once, before the next writer can announce itself. A recursive RLock with a writer
// announced in between therefore blocks here exactly as it does in a real program.
type lockEnt struct {
	addr    uintptr
	gate    int // task id+1 of the writer that is announced or holds the lock, 0 none
	writer  int // task id+1 holding it exclusively, 0 none
	readers int // active readers
}

// Policy selects the next task.
type Policy struct {
	Kind     string  `json:"kind"`               // "random" | "pct" | "starve" | "fifo"
	Depth    int     `json:"depth,omitempty"`    // pct: number of priority change points
	Victim   int     `json:"victim,omitempty"`   // starve: task index (mod n) that runs only when alone
	Choices  []uint8 `json:"choices,omitempty"`  // replay: forced choices (index into the canonical enabled list)
	MaxSteps int     `json:"maxSteps,omitempty"` // pct: estimate of run length for change points
}

// Kernel is the scheduler of one run.
type Kernel struct {
	epoch    time.Time
	rng      *Rand
	pol      Policy
	tasks    [maxTasks]*Task
	ntasks   int
	enabled  [maxTasks]*Task
	running  *Task
	Steps    int
	MaxSteps int
	HorizonN int64 // virtual ns after which the run is cut (0 = none)
	// MaxIdleJump: if nothing is enabled and the next timed event is further away than this,
	// the run is declared quiescent (0 = jump any distance). Used by the -race build, where
	// tasks park by polling and only timeouts far in the future can be left when the tasks
	// have dead-locked each other.
	MaxIdleJump int64
	aborting    bool
	locks       [maxLocks]lockEnt
	nlocks      int
	digest      uint64
	schedHash   uint64
	// recorded choices (index into enabled list), bounded
	Chosen  []uint8
	nchosen int
	// pct
	prio    [maxTasks]int
	change  [8]int
	nchange int
	// stats
	Externals int // times a task blocked outside the kernel's knowledge
	// ExternalWait: how much virtual time the kernel lets pass, when nothing else can happen,
	// for a task that is blocked outside its knowledge to come back (0: none).
	ExternalWait int64
	// ForeignTimers: goroutines of the program under test that are no tasks (crypto/tls's
	// handshake interrupter that closes the connection when the context is done) may still act
	// on the simulated network when every task is parked: the same wait applies then.
	ForeignTimers      bool
	extWaited, extStep int64
	// pokeCh wakes the kernel out of such a wait the instant a goroutine that is no task acts on
	// the simulated network (see Poke).
	pokeCh chan struct{}
	// Adopt switches the adoption of foreign goroutines on (see Task.Adopted).
	Adopt      bool
	adoptMu    sync.Mutex
	adoptQ     []*Task
	selfG      uintptr
	Adoptions  int
	Contended  int // times a task was found parked on a held lock
	MaxEnabled int
	// OnStep, if set, is called by the kernel before every choice (invariants).
	OnStep func(k *Kernel)
}

// NewKernel must be called inside a synctest bubble.
func NewKernel(seed uint64, pol Policy) *Kernel {
	k := &Kernel{epoch: time.Now(), rng: NewRand(seed), pol: pol, MaxSteps: 200000}
	k.pokeCh = make(chan struct{}, 1)
	k.selfG = curG()
	k.Chosen = make([]uint8, 0, 1<<16)
	k.Chosen = k.Chosen[:cap(k.Chosen)]
	k.digest = 1469598103934665603
	k.schedHash = 1469598103934665603
	if pol.Kind == "pct" {
		n := pol.MaxSteps
		if n <= 0 {
			n = 400
		}
		d := pol.Depth
		if d > len(k.change) {
			d = len(k.change)
		}
		for i := 0; i < d; i++ {
			k.change[i] = 1 + k.rng.Intn(n)
		}
		k.nchange = d
	}
	return k
}

// Now is the virtual time in ns since the kernel was created.
//
//go:norace
func (k *Kernel) Now() int64 { return int64(time.Since(k.epoch)) }

// Epoch is the virtual instant at which the kernel was created.
func (k *Kernel) Epoch() time.Time { return k.epoch }

// Rng is the run's PRNG; only to be used by the running task or the kernel (serialised).
//
//go:norace
func (k *Kernel) Rng() *Rand { return k.rng }

//go:norace
func (k *Kernel) Aborting() bool { return k.aborting }

//go:norace
func (k *Kernel) mix(v uint64) {
	k.digest ^= v
	k.digest *= 1099511628211
}

// Note folds an observation into the run digest (used by the transport and the server so that
// two executions with equal digests saw the same byte traffic in the same order).
//
//go:norace
func (k *Kernel) Note(a, b uint64) {
	k.mix(uint64(k.Steps))
	k.mix(a)
	k.mix(b)
}

//go:norace
func (k *Kernel) Digest() uint64 { return k.digest }

// SchedHash identifies the sequence of (task, yield point) decisions taken.
//
//go:norace
func (k *Kernel) SchedHash() uint64 { return k.schedHash }

//go:norace
func (k *Kernel) NumChosen() int { return k.nchosen }

// GoDaemon creates a daemon task (see Task.Daemon).
func (k *Kernel) GoDaemon(name string, fn func()) *Task {
	t := k.newTask(name, fn)
	t.setDaemon()
	go t.main()
	return t
}

//go:norace
func (t *Task) setDaemon() { t.Daemon = true }

// Go creates a task. It may be called before Run (by the bubble's root goroutine) or by a running
// task (a new phase); the new goroutine is started with an ordinary go statement, which gives it
// exactly the happens-before edge a real caller's go statement gives.
func (k *Kernel) Go(name string, fn func()) *Task {
	t := k.newTask(name, fn)
	go t.main()
	return t
}

//go:norace
func (k *Kernel) newTask(name string, fn func()) *Task {
	if k.ntasks >= maxTasks {
		panic("sim: too many tasks")
	}
	t := &Task{ID: k.ntasks, Name: name, k: k, fn: fn, state: tNew, cond: Ready}
	t.parkInit()
	k.prio[k.ntasks] = k.rng.Intn(1 << 20)
	k.tasks[k.ntasks] = t
	k.ntasks++
	return t
}

func (t *Task) main() {
	defer t.finish()
	t.setGid(curG())
	t.k.Park(t, Ready, 0)
	t.fn()
}

func (t *Task) finish() {
	if r := recover(); r != nil {
		t.setPanic(r, string(debug.Stack()))
	}
	t.done()
}

//go:norace
func (t *Task) setGid(g uintptr) { t.gid = g }

//go:norace
func (t *Task) setPanic(r any, st string) { t.Panic = r; t.PanicStack = st }

//go:norace
func (t *Task) done() {
	t.state = tDone
	if t.k.running == t {
		t.k.running = nil
	}
}

//go:norace
func (t *Task) IsDone() bool { return t.state == tDone }

// Current returns the running task (nil when the kernel itself runs).
//
//go:norace
func (k *Kernel) Current() *Task { return k.running }

// Park suspends the calling task until the kernel releases it. t may be nil, meaning "the current
// task"; calls from outside any task (e.g. while aborting) return at once.
func (k *Kernel) Park(t *Task, c Cond, point int) {
	if !k.prepPark(&t, c, point) {
		return
	}
	t.park()
}

//go:norace
func (k *Kernel) prepPark(tp **Task, c Cond, point int) bool {
	if k.aborting {
		return false
	}
	t := *tp
	if t == nil {
		g := curG()
		switch r := k.running; {
		case r != nil && r.gid == g:
			t = r
		case g == k.selfG:
			return false // the kernel's own goroutine
		default:
			// a task that went on by itself after blocking outside the kernel's knowledge, or a
			// goroutine the kernel has never seen
			for i := 0; i < k.ntasks; i++ {
				if k.tasks[i].gid == g && k.tasks[i].state != tDone {
					t = k.tasks[i]
				}
			}
			if t == nil {
				if !k.Adopt {
					return false
				}
				t = &Task{ID: -1, Name: "adopted", k: k, state: tParked, cond: c, point: point, Daemon: true, Adopted: true, gid: g}
				t.parkInit()
				t.prepare()
				k.adoptMu.Lock()
				k.adoptQ = append(k.adoptQ, t)
				k.adoptMu.Unlock()
				*tp = t
				k.pokeNow()
				return true
			}
			if t.state != tExternal {
				// a known task that is neither running nor external cannot be calling: identity
				// clash (a goroutine that ended and whose g was reused) — leave it alone
				return false
			}
		}
		*tp = t
	}
	t.cond = c
	t.point = point
	t.state = tParked // also the way back from tExternal
	t.prepare()
	if k.running == t {
		k.running = nil
	}
	return true
}

// Yield is Park(Ready).
func (k *Kernel) Yield(point int) { k.Park(nil, Ready, point) }

// Sleep suspends the current task for d of virtual time.
func (k *Kernel) Sleep(d time.Duration) {
	if d <= 0 {
		k.Yield(1)
		return
	}
	k.Park(nil, &sleepCond{until: k.Now() + int64(d)}, 1)
}

//go:norace
func (k *Kernel) allDone() bool {
	for i := 0; i < k.ntasks; i++ {
		if t := k.tasks[i]; t.state != tDone && !(t.Adopted && t.state != tParked) {
			return false
		}
	}
	return true
}

// drainAdopted takes the goroutines that asked for adoption since the last step into the task
// table (they are parked on the condition of the operation they were about to perform).
func (k *Kernel) drainAdopted() {
	if !k.Adopt {
		return
	}
	k.adoptMu.Lock()
	q := k.adoptQ
	k.adoptQ = nil
	k.adoptMu.Unlock()
	for _, t := range q {
		k.admit(t)
	}
}

//go:norace
func (k *Kernel) admit(t *Task) {
	if k.ntasks >= maxTasks {
		panic("sim: too many tasks")
	}
	t.ID = k.ntasks
	t.Name = "adopted-" + string(rune('a'+k.Adoptions%26))
	k.prio[k.ntasks] = k.rng.Intn(1 << 20)
	k.tasks[k.ntasks] = t
	k.ntasks++
	k.Adoptions++
}

// pokeNow wakes a waiting kernel regardless of who is calling.
func (k *Kernel) pokeNow() {
	select {
	case k.pokeCh <- struct{}{}:
	default:
	}
}

// mainDone: every non-daemon task has finished.
//
//go:norace
func (k *Kernel) mainDone() bool {
	for i := 0; i < k.ntasks; i++ {
		if k.tasks[i].state != tDone && !k.tasks[i].Daemon {
			return false
		}
	}
	return true
}

//go:norace
func (k *Kernel) collect(now int64) (n int, next int64) {
	next = Never
	for i := 0; i < k.ntasks; i++ {
		t := k.tasks[i]
		if t.state != tParked {
			continue
		}
		if t.cond.Enabled(now) {
			k.enabled[n] = t
			n++
			continue
		}
		if nt := t.cond.NextTime(now); nt < next {
			next = nt
		}
		if _, ok := t.cond.(*LockCond); ok {
			k.Contended++
		}
	}
	if n > k.MaxEnabled {
		k.MaxEnabled = n
	}
	return
}

//go:norace
func (k *Kernel) choose(n int) *Task {
	idx := 0
	switch {
	case k.nchosen < len(k.pol.Choices):
		idx = int(k.pol.Choices[k.nchosen])
		if idx >= n {
			idx = idx % n
		}
	case len(k.pol.Choices) > 0 || k.pol.Kind == "fifo" || n == 1:
		idx = 0
	case k.pol.Kind == "pct":
		for i := 0; i < k.nchange; i++ {
			if k.change[i] == k.Steps {
				// demote the task that would run now
				b := k.best(n)
				k.prio[k.enabled[b].ID] = -k.Steps
			}
		}
		idx = k.best(n)
	case k.pol.Kind == "starve":
		v := k.pol.Victim
		idx = k.rng.Intn(n)
		if k.enabled[idx].ID == v%k.ntasks && n > 1 {
			idx = (idx + 1 + k.rng.Intn(n-1)) % n
		}
	default:
		idx = k.rng.Intn(n)
	}
	if k.nchosen < len(k.Chosen) {
		k.Chosen[k.nchosen] = uint8(idx)
	}
	k.nchosen++
	return k.enabled[idx]
}

//go:norace
func (k *Kernel) best(n int) int {
	b := 0
	for i := 1; i < n; i++ {
		if k.prio[k.enabled[i].ID] > k.prio[k.enabled[b].ID] {
			b = i
		}
	}
	return b
}

// Run drives all tasks until they are done, nothing can ever happen again (Quiescent), or a bound
// is hit. On anything but AllDone the caller should call Abort to unwind the tasks.
func (k *Kernel) Run() Verdict {
	k.setSelf(curG())
	for {
		k.settle()
		k.drainAdopted()
		if k.allDone() {
			return AllDone
		}
		if k.Steps >= k.MaxSteps {
			return StepLimit
		}
		now := k.Now()
		if k.HorizonN > 0 && now > k.HorizonN {
			return Horizon
		}
		if k.OnStep != nil {
			k.OnStep(k)
		}
		n, next := k.collect(now)
		if n > 0 {
			k.extWaited, k.extStep = 0, 0
		}
		if n == 0 {
			if next == Never {
				if k.mainDone() {
					return AllDone
				}
				if k.ExternalWait > 0 && k.extWaited < k.ExternalWait && (k.hasExternal() || k.ForeignTimers) {
					// A task is blocked on something the kernel does not know. It may be a timer of
					// the bubble (a context deadline): let virtual time pass, in growing steps, and
					// look again. The task itself wakes at the exact instant of its timer; only the
					// kernel's reaction is as coarse as the step.
					if k.extStep == 0 {
						k.extStep = int64(time.Millisecond)
					} else if k.extStep < int64(time.Second) {
						k.extStep *= 2
					}
					k.extWaited += k.extStep
					k.idleWait(time.Duration(k.extStep))
					continue
				}
				return Quiescent
			}
			if k.mainDone() && next-now > int64(time.Minute) {
				// only daemons are left and they are waiting for something far away
				return AllDone
			}
			d := next - now
			if d < 1 {
				d = 1
			}
			if k.MaxIdleJump > 0 && d > k.MaxIdleJump {
				return Quiescent
			}
			k.idleWait(time.Duration(d))
			continue
		}
		t := k.choose(n)
		k.step(t)
	}
}

// idleWait lets d of virtual time pass, or less when a foreign goroutine pokes the kernel.
func (k *Kernel) idleWait(d time.Duration) {
	if !k.ForeignTimers && !k.Adopt {
		time.Sleep(d)
		return
	}
	tm := time.NewTimer(d)
	select {
	case <-k.pokeCh:
		tm.Stop()
	case <-tm.C:
	}
}

// Poke is called by the transport when a goroutine that is no task (no task is running: the
// kernel is waiting) has changed the state of a connection, so that the tasks waiting on it are
// served at that very instant of virtual time and not at the end of the kernel's wait step.
func (k *Kernel) Poke() {
	if !k.ForeignTimers || k.foreignQuiet() {
		return
	}
	select {
	case k.pokeCh <- struct{}{}:
	default:
	}
}

//go:norace
func (k *Kernel) foreignQuiet() bool { return k.running != nil || k.aborting }

//go:norace
func (k *Kernel) setSelf(g uintptr) { k.selfG = g }

//go:norace
func (k *Kernel) step(t *Task) {
	k.Steps++
	k.schedHash ^= uint64(t.ID)<<8 | uint64(t.point)
	k.schedHash *= 1099511628211
	if lc, ok := t.cond.(*LockCond); ok {
		k.grant(t, lc)
	}
	t.state = tRunning
	k.running = t
	t.release()
}

// settle waits until the released task (if any) has parked again or finished and every other
// goroutine of the bubble is durably blocked.
func (k *Kernel) settle() {
	// In the -race build a released task needs up to one poll tick to notice its release, so
	// "everything is durably blocked but a task counts as running" is only conclusive after a
	// few ticks; with channel parking it is conclusive at once.
	patience := 0
	if RaceEnabled {
		patience = 20
	}
	for i := 0; ; i++ {
		synctest.Wait()
		if !k.busy() {
			return
		}
		if i >= patience && k.markExternal() {
			return
		}
		time.Sleep(1)
	}
}

//go:norace
func (k *Kernel) hasExternal() bool {
	for i := 0; i < k.ntasks; i++ {
		if k.tasks[i].state == tExternal {
			return true
		}
	}
	return false
}

// markExternal: the running task is durably blocked outside the kernel's knowledge.
//
//go:norace
func (k *Kernel) markExternal() bool {
	for i := 0; i < k.ntasks; i++ {
		if k.tasks[i].state == tNew {
			return false
		}
	}
	if k.running == nil {
		return false
	}
	k.running.state = tExternal
	k.running = nil
	k.Externals++
	return true
}

//go:norace
func (k *Kernel) busy() bool {
	if k.running != nil {
		return true
	}
	for i := 0; i < k.ntasks; i++ {
		if k.tasks[i].state == tNew {
			return true
		}
	}
	return false
}

// Abort switches to abort mode: parking stops, simulated I/O fails at once (the transport checks
// Aborting), and all parked tasks are released to unwind under the program's own locks. It
// returns the number of tasks that had not finished after the grace period.
func (k *Kernel) Abort() (leaked int) {
	k.setAbort()
	for i := 0; i < k.ntasks; i++ {
		t := k.tasks[i]
		if t.parkedNow() {
			t.release()
		}
	}
	for i := 0; i < 2000; i++ {
		if k.allDone() {
			return 0
		}
		time.Sleep(time.Microsecond)
	}
	for i := 0; i < k.ntasks; i++ {
		if !k.tasks[i].IsDone() && !k.tasks[i].Adopted {
			leaked++
		}
	}
	return
}

//go:norace
func (k *Kernel) setAbort() { k.aborting = true; k.running = nil }

//go:norace
func (t *Task) parkedNow() bool { return t.state == tParked || t.state == tNew }

// PanickedTasks lists tasks that ended in a panic.
func (k *Kernel) PanickedTasks() []*Task {
	var out []*Task
	for i := 0; i < k.ntasks; i++ {
		if k.tasks[i].Panic != nil {
			out = append(out, k.tasks[i])
		}
	}
	return out
}

// Unfinished lists the names of tasks that are not done.
func (k *Kernel) Unfinished() []string {
	var out []string
	for i := 0; i < k.ntasks; i++ {
		if !k.tasks[i].IsDone() {
			out = append(out, fmt.Sprintf("%s(point %d)", k.tasks[i].Name, k.tasks[i].point))
		}
	}
	return out
}

// ---- lock table (used by the instrumented scratch copy, C13) ----

// LockCond waits for a mutex to become available.
type LockCond struct {
	k     *Kernel
	addr  uintptr
	write bool
	// phase of a writer: 1 waits for the writers' gate, 2 (announced) waits for the active
	// readers to leave
	phase int
	// admitted: a reader that waited behind a writer and was admitted by that writer's Unlock
	admitted bool
}

//go:norace
func (l *LockCond) Enabled(int64) bool {
	e := l.k.lockEnt(l.addr, false)
	if e == nil {
		return true
	}
	if l.write {
		if l.phase == 2 {
			return e.readers == 0
		}
		return e.gate == 0
	}
	return l.admitted || e.gate == 0
}

//go:norace
func (l *LockCond) NextTime(int64) int64 { return Never }

//go:norace
func (k *Kernel) lockEnt(addr uintptr, create bool) *lockEnt {
	for i := 0; i < k.nlocks; i++ {
		if k.locks[i].addr == addr {
			return &k.locks[i]
		}
	}
	if !create {
		return nil
	}
	if k.nlocks >= maxLocks {
		panic("sim: lock table full")
	}
	k.locks[k.nlocks] = lockEnt{addr: addr}
	k.nlocks++
	return &k.locks[k.nlocks-1]
}

//go:norace
func (k *Kernel) grant(t *Task, l *LockCond) {
	e := k.lockEnt(l.addr, true)
	switch {
	case l.write && l.phase == 2:
		e.writer = t.ID + 1
	case l.write:
		e.gate = t.ID + 1
		if e.readers == 0 {
			e.writer = t.ID + 1
		}
	case !l.admitted:
		e.readers++
	}
}

//go:norace
func (k *Kernel) holdsWrite(addr uintptr) bool {
	e := k.lockEnt(addr, false)
	return e == nil || e.writer != 0
}

// AcquireLock parks the current task until the lock at addr is free and marks it taken. The
// caller then performs the real Lock/RLock, which cannot block.
func (k *Kernel) AcquireLock(addr uintptr, write bool, point int) {
	if k.isAborting() || (k.Current() == nil && !k.Adopt) {
		return
	}
	k.Park(nil, &LockCond{k: k, addr: addr, write: write, phase: 1}, point)
	if write && !k.isAborting() && !k.holdsWrite(addr) {
		// announced, readers still active
		k.Park(nil, &LockCond{k: k, addr: addr, write: true, phase: 2}, point)
	}
}

//go:norace
func (k *Kernel) isAborting() bool { return k.aborting }

// ReleaseLock records the release; the caller has already performed the real Unlock/RUnlock.
//
//go:norace
func (k *Kernel) ReleaseLock(addr uintptr, write bool) {
	if k.aborting {
		return
	}
	e := k.lockEnt(addr, false)
	if e == nil {
		return
	}
	if write {
		e.writer, e.gate = 0, 0
		// every reader that waited behind this writer is admitted now
		for i := 0; i < k.ntasks; i++ {
			t := k.tasks[i]
			if t.state != tParked {
				continue
			}
			if lc, ok := t.cond.(*LockCond); ok && lc.addr == addr && !lc.write && !lc.admitted {
				lc.admitted = true
				e.readers++
			}
		}
	} else if e.readers > 0 {
		e.readers--
	}
}

type joinCond struct{ ts []*Task }

//go:norace
func (j *joinCond) Enabled(int64) bool {
	for _, t := range j.ts {
		if t.state != tDone {
			return false
		}
	}
	return true
}

//go:norace
func (j *joinCond) NextTime(int64) int64 { return Never }

// Join parks the current task until all given tasks are done.
func (k *Kernel) Join(ts ...*Task) { k.Park(nil, &joinCond{ts: ts}, PtOther) }
