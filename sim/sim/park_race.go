//go:build race

package sim

import "time"

// With the race detector tasks park by polling a flag in time.Sleep: a durable block for
// synctest and no happens-before edge from the kernel to the task, so the serialised schedule
// does not hide unsynchronised accesses between tasks (DESIGN.md §3.1).
type parkState struct{ released uint32 }

func (t *Task) parkInit() {}

//go:norace
func (t *Task) prepare() { t.released = 0 }

func (t *Task) park() {
	for !t.isReleased() {
		time.Sleep(1)
	}
}

//go:norace
func (t *Task) isReleased() bool { return t.released != 0 }

//go:norace
func (t *Task) release() { t.released = 1 }

// RaceEnabled reports whether this binary was built with -race.
const RaceEnabled = true
