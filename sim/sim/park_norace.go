//go:build !race

package sim

// Without the race detector tasks park on a channel (a durable block for synctest).
type parkState struct{ wake chan struct{} }

func (t *Task) parkInit() { t.wake = make(chan struct{}, 1) }
func (t *Task) prepare()  {}
func (t *Task) park()     { <-t.wake }
func (t *Task) release() {
	select {
	case t.wake <- struct{}{}:
	default:
	}
}

// RaceEnabled reports whether this binary was built with -race.
const RaceEnabled = false
