#include "textflag.h"

// func curG() uintptr
// The address of the running goroutine's g: an identity that is unique among live goroutines.
TEXT ·curG(SB),NOSPLIT,$0-8
	MOVQ (TLS), AX
	MOVQ AX, ret+0(FP)
	RET
