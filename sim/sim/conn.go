package sim

import (
	"errors"
	"io"
	"net"
	"os"
	"syscall"
	"time"
)

// The simulated transport: a duplex byte stream between two Ends with, per direction, a bounded
// send window, a latency, PRNG-chosen read segmentation, and scripted stream faults. It is the
// only transport the system under test sees. Loss, duplication and reordering are not injected:
// the seam's contract is a TCP byte stream (DESIGN.md §3.2).

// ConnFaults are the scripted faults of one connection, addressed by stream offsets.
type ConnFaults struct {
	// client→server direction
	C2SStallAt  int64 `json:"c2sStallAt,omitempty"` // bytes at offset >= this never arrive (peer stops reading); -1/0 = off (use C2SStall flag)
	C2SStall    bool  `json:"c2sStall,omitempty"`   // enables C2SStallAt
	ResetAt     int64 `json:"resetAt,omitempty"`    // connection reset when the client writes the byte at this offset
	Reset       bool  `json:"reset,omitempty"`
	WriteFailAt int64 `json:"writeFailAt,omitempty"` // client Write returns an error when reaching this offset (short write)
	WriteFail   bool  `json:"writeFail,omitempty"`
	// SetDeadlineFailNth: the n-th SetDeadline call on the client end (1-based) fails (the
	// descriptor is in a state that accepts no deadline); nothing else is wrong with it
	SetDeadlineFailNth int `json:"setDeadlineFailNth,omitempty"`
	WriteFailNth       int `json:"writeFailNth,omitempty"` // the n-th Write call of the client (1-based) fails without accepting anything
	// server→client direction
	S2CStallAt int64 `json:"s2cStallAt,omitempty"` // bytes at offset >= this never arrive
	S2CStall   bool  `json:"s2cStall,omitempty"`
	S2CDripAt  int64 `json:"s2cDripAt,omitempty"` // from this offset on one byte per DripNs
	S2CDrip    bool  `json:"s2cDrip,omitempty"`
	DripNs     int64 `json:"dripNs,omitempty"`
	// tuning knobs
	Window    int   `json:"window,omitempty"`    // send window per direction (bytes); 0 = 64 KiB
	LatencyNs int64 `json:"latencyNs,omitempty"` // one-way latency; 0 = default
	MaxSeg    int   `json:"maxSeg,omitempty"`    // upper bound for a single Read (0 = unlimited); the actual size is drawn per Read
	SegMode   int   `json:"segMode,omitempty"`   // 0: whole buffer, 1: random up to MaxSeg, 2: one byte at a time
}

type seg struct {
	end int64 // stream offset one past the last byte of this segment
	at  int64 // arrival time
}

const maxSegs = 512

// stream is one direction.
type stream struct {
	buf     []byte // ring, len == window
	r, w    int64  // stream offsets consumed / written
	segs    [maxSegs]seg
	sh, st  int // ring head / tail of segs
	wclosed bool
	closeAt int64 // arrival time of the FIN
	reset   bool
	latency int64
	stallAt int64 // -1 off
	dripAt  int64 // -1 off
	dripT0  int64 // arrival time of byte dripAt; -1 unknown
	dripNs  int64
	tap     []byte
	ntap    int
	// counters
	stalledFired, dripFired bool
	stallBegan              int64 // virtual time at which the first suppressed byte was written; -1: not yet
}

//go:norace
func (s *stream) window() int64 { return int64(len(s.buf)) }

// avail is the stream offset up to which bytes have arrived at time now.
//
//go:norace
func (s *stream) avail(now int64) int64 {
	a := s.r
	for i := s.sh; i != s.st; i = (i + 1) % maxSegs {
		if s.segs[i].at <= now {
			a = s.segs[i].end
		} else {
			break
		}
	}
	if s.stallAt >= 0 && a > s.stallAt {
		a = s.stallAt
		s.stalledFired = true
	}
	if s.dripAt >= 0 && a > s.dripAt {
		if s.dripT0 < 0 {
			s.dripT0 = s.arrivalOf(s.dripAt)
		}
		lim := s.dripAt + 1 + (now-s.dripT0)/s.dripNs
		if now < s.dripT0 {
			lim = s.dripAt
		}
		if a > lim {
			a = lim
		}
		s.dripFired = true
	}
	if a < s.r {
		a = s.r
	}
	return a
}

//go:norace
func (s *stream) arrivalOf(off int64) int64 {
	for i := s.sh; i != s.st; i = (i + 1) % maxSegs {
		if s.segs[i].end > off {
			return s.segs[i].at
		}
	}
	return Never
}

// nextArrival is the earliest time > now at which avail grows.
//
//go:norace
func (s *stream) nextArrival(now int64) int64 {
	a := s.avail(now)
	if s.stallAt >= 0 && a >= s.stallAt {
		return Never
	}
	if s.dripAt >= 0 && a >= s.dripAt && s.dripT0 >= 0 && a < s.w {
		if s.arrivalOf(a) <= now {
			// next drip tick
			k := a - s.dripAt // bytes already released from the drip region
			return s.dripT0 + k*s.dripNs
		}
	}
	for i := s.sh; i != s.st; i = (i + 1) % maxSegs {
		if s.segs[i].at > now && s.segs[i].end > a {
			return s.segs[i].at
		}
	}
	if s.wclosed && s.closeAt > now {
		return s.closeAt
	}
	return Never
}

//go:norace
func (s *stream) push(p []byte, now int64) {
	if s.stallAt >= 0 && s.stallBegan < 0 && s.w+int64(len(p)) > s.stallAt && len(p) > 0 {
		s.stallBegan = now
	}
	for _, b := range p {
		s.buf[s.w%s.window()] = b
		s.w++
	}
	at := now + s.latency
	if s.sh != s.st {
		last := (s.st + maxSegs - 1) % maxSegs
		if s.segs[last].at == at {
			s.segs[last].end = s.w
			return
		}
	}
	s.segs[s.st] = seg{end: s.w, at: at}
	s.st = (s.st + 1) % maxSegs
}

//go:norace
func (s *stream) segsFull() bool { return (s.st+1)%maxSegs == s.sh }

//go:norace
func (s *stream) pop(p []byte, n int64) {
	for i := int64(0); i < n; i++ {
		p[i] = s.buf[s.r%s.window()]
		s.r++
	}
	for s.sh != s.st && s.segs[s.sh].end <= s.r {
		s.sh = (s.sh + 1) % maxSegs
	}
}

//go:norace
func (s *stream) tapBytes(p []byte) {
	if s.ntap+len(p) > len(s.tap) {
		n := 2 * (s.ntap + len(p))
		if n < 4096 {
			n = 4096
		}
		nb := make([]byte, n)
		for i := 0; i < s.ntap; i++ {
			nb[i] = s.tap[i]
		}
		s.tap = nb
	}
	for _, b := range p {
		s.tap[s.ntap] = b
		s.ntap++
	}
}

// Pipe is one simulated connection.
type Pipe struct {
	k      *Kernel
	ID     int
	c2s    stream
	s2c    stream
	Client *End
	Server *End
	f      ConnFaults
	// fault counters (fired, not configured)
	ResetFired, WriteFailFired bool
	clientWrites               int
	SetDeadlineFailFired       bool
	setDeadlineCalls           int
}

// End is one endpoint; it implements net.Conn.
type End struct {
	p        *Pipe
	isClient bool
	rx, tx   *stream
	closed   bool
	// CloseStep is the kernel step at which Close was called (-1: never).
	CloseStep     int
	CloseTime     int64
	CloseCount    int
	rdl, wdl      int64 // absolute deadlines in virtual ns; 0 none
	Reads, Writes int
	TimeoutsFired int
}

// NewPipe creates a connection with the given faults.
func NewPipe(k *Kernel, id int, f ConnFaults) *Pipe {
	w := f.Window
	if w <= 0 {
		w = 64 << 10
	}
	lat := f.LatencyNs
	if lat <= 0 {
		lat = int64(200 * time.Microsecond)
		if RaceEnabled {
			lat = 3
		}
	}
	p := &Pipe{k: k, ID: id, f: f}
	for _, s := range []*stream{&p.c2s, &p.s2c} {
		s.buf = make([]byte, w)
		s.latency = lat
		s.stallAt, s.dripAt, s.dripT0, s.stallBegan = -1, -1, -1, -1
		s.tap = make([]byte, 8192)
	}
	if f.C2SStall {
		p.c2s.stallAt = f.C2SStallAt
	}
	if f.S2CStall {
		p.s2c.stallAt = f.S2CStallAt
	}
	if f.S2CDrip {
		p.s2c.dripAt = f.S2CDripAt
		p.s2c.dripNs = f.DripNs
		if p.s2c.dripNs <= 0 {
			p.s2c.dripNs = int64(time.Second)
		}
	}
	p.Client = &End{p: p, isClient: true, rx: &p.s2c, tx: &p.c2s, CloseStep: -1}
	p.Server = &End{p: p, isClient: false, rx: &p.c2s, tx: &p.s2c, CloseStep: -1}
	return p
}

// C2S returns a copy of every byte the client wrote so far; S2C likewise for the server.
//
//go:norace
func (p *Pipe) C2S() []byte { return cp(p.c2s.tap[:p.c2s.ntap]) }

//go:norace
func (p *Pipe) S2C() []byte { return cp(p.s2c.tap[:p.s2c.ntap]) }

// C2SLen is the number of bytes the client has written.
//
//go:norace
func (p *Pipe) C2SLen() int64 { return p.c2s.w }

// S2CLen is the number of bytes the server has written.
//
//go:norace
func (p *Pipe) S2CLen() int64 { return p.s2c.w }

// S2CDelivered is the number of server bytes the client has consumed.
//
//go:norace
func (p *Pipe) S2CDelivered() int64 { return p.s2c.r }

// StallS2CFrom makes every server byte written from now on never arrive (the server goes silent
// while holding the connection open).
//
//go:norace
func (p *Pipe) StallS2CFrom(off int64) {
	// a direction that has gone dead stays dead: a later stall never revives bytes that an
	// earlier one swallowed
	if p.s2c.stallAt < 0 || off < p.s2c.stallAt {
		p.s2c.stallAt = off
	}
}

// DripS2CFrom delivers server bytes from offset off at one byte per dt.
//
//go:norace
func (p *Pipe) DripS2CFrom(off int64, dt int64) {
	p.s2c.dripAt = off
	p.s2c.dripNs = dt
	p.s2c.dripT0 = -1
}

// ResetC2SFrom: the connection is reset when the client writes the byte at offset off.
//
//go:norace
func (p *Pipe) ResetC2SFrom(off int64) {
	if !p.f.Reset || off < p.f.ResetAt {
		p.f.Reset, p.f.ResetAt = true, off
	}
}

// StallC2SFrom: the server stops reading at offset off.
//
//go:norace
func (p *Pipe) StallC2SFrom(off int64) {
	if p.c2s.stallAt < 0 || off < p.c2s.stallAt {
		p.c2s.stallAt = off
	}
}

// StallBegan returns the virtual instants at which the first suppressed byte was written in each
// direction (-1: the stall never took effect).
//
//go:norace
func (p *Pipe) StallBegan() (s2c, c2s int64) { return p.s2c.stallBegan, p.c2s.stallBegan }

//go:norace
func (p *Pipe) Fired() (s2cStall, s2cDrip, c2sStall bool) {
	return p.s2c.stalledFired, p.s2c.dripFired, p.c2s.stalledFired
}

//go:norace
func cp(b []byte) []byte {
	o := make([]byte, len(b))
	for i := range b {
		o[i] = b[i]
	}
	return o
}

type timeoutError struct{}

func (timeoutError) Error() string   { return "i/o timeout" }
func (timeoutError) Timeout() bool   { return true }
func (timeoutError) Temporary() bool { return true }
func (timeoutError) Is(err error) bool {
	return err == os.ErrDeadlineExceeded
}

var errTimeout net.Error = timeoutError{}

func opErr(op string, err error) error {
	return &net.OpError{Op: op, Net: "sim", Source: simAddr("client"), Addr: simAddr("server"), Err: err}
}

var errReset = syscall.ECONNRESET
var errAborted = errors.New("simulation aborted")

type readCond struct{ e *End }

//go:norace
func (c readCond) Enabled(now int64) bool {
	e := c.e
	if e.closed || e.rx.reset {
		return true
	}
	if e.rx.avail(now) > e.rx.r {
		return true
	}
	if e.rx.wclosed && e.rx.closeAt <= now && e.rx.avail(now) >= e.rx.w {
		return true
	}
	if e.rdl != 0 && now >= e.rdl {
		return true
	}
	return false
}

//go:norace
func (c readCond) NextTime(now int64) int64 {
	e := c.e
	n := e.rx.nextArrival(now)
	if e.rdl != 0 && e.rdl > now && e.rdl < n {
		n = e.rdl
	}
	return n
}

type writeCond struct{ e *End }

//go:norace
func (c writeCond) Enabled(now int64) bool {
	e := c.e
	if e.closed || e.tx.reset || e.tx.wclosed {
		return true
	}
	if e.tx.w-e.tx.r < e.tx.window() && !e.tx.segsFull() {
		return true
	}
	if e.wdl != 0 && now >= e.wdl {
		return true
	}
	return false
}

//go:norace
func (c writeCond) NextTime(now int64) int64 {
	e := c.e
	if e.wdl != 0 && e.wdl > now {
		return e.wdl
	}
	return Never
}

// Yield-point classes (for the schedule hash).
const (
	PtStart = iota
	PtSleep
	PtRead
	PtWrite
	PtLock
	PtUnlock
	PtRLock
	PtRUnlock
	PtOther
)

// Read implements net.Conn.
func (e *End) Read(p []byte) (int, error) {
	k := e.p.k
	if len(p) == 0 {
		return 0, nil
	}
	k.Park(nil, readCond{e}, PtRead)
	return e.read(p)
}

//go:norace
func (e *End) read(p []byte) (int, error) {
	k := e.p.k
	if k.aborting {
		return 0, opErr("read", errAborted)
	}
	e.Reads++
	now := k.Now()
	if e.closed {
		return 0, opErr("read", net.ErrClosed)
	}
	a := e.rx.avail(now)
	if n := a - e.rx.r; n > 0 {
		if int64(len(p)) < n {
			n = int64(len(p))
		}
		switch e.p.f.SegMode {
		case 1:
			m := e.p.f.MaxSeg
			if m <= 0 {
				m = 64
			}
			if lim := int64(1 + k.rng.Intn(m)); lim < n {
				n = lim
			}
		case 2:
			n = 1
		}
		e.rx.pop(p, n)
		k.Note(uint64(e.p.ID)<<2|b2u(e.isClient)<<1, uint64(n))
		return int(n), nil
	}
	if e.rx.reset {
		return 0, opErr("read", errReset)
	}
	if e.rx.wclosed && e.rx.closeAt <= now {
		return 0, io.EOF
	}
	if e.rdl != 0 && now >= e.rdl {
		e.TimeoutsFired++
		return 0, opErr("read", errTimeout)
	}
	// spurious wake-up cannot happen: the kernel only releases an enabled task
	return 0, opErr("read", errors.New("sim: read released without cause"))
}

//go:norace
func b2u(b bool) uint64 {
	if b {
		return 1
	}
	return 0
}

// Write implements net.Conn.
func (e *End) Write(p []byte) (int, error) {
	k := e.p.k
	done := 0
	for {
		k.Park(nil, writeCond{e}, PtWrite)
		n, err, again := e.write(p[done:])
		done += n
		if err != nil || !again {
			return done, err
		}
	}
}

//go:norace
func (e *End) write(p []byte) (n int, err error, again bool) {
	k := e.p.k
	if k.aborting {
		return 0, opErr("write", errAborted), false
	}
	e.Writes++
	now := k.Now()
	if e.closed {
		return 0, opErr("write", net.ErrClosed), false
	}
	if e.tx.reset {
		return 0, opErr("write", errReset), false
	}
	if e.tx.wclosed {
		return 0, opErr("write", syscall.EPIPE), false
	}
	space := e.tx.window() - (e.tx.w - e.tx.r)
	if space <= 0 || e.tx.segsFull() {
		if e.wdl != 0 && now >= e.wdl {
			e.TimeoutsFired++
			return 0, opErr("write", errTimeout), false
		}
		return 0, nil, true
	}
	take := int64(len(p))
	if take > space {
		take = space
	}
	f := &e.p.f
	if e.isClient && f.WriteFailNth > 0 {
		e.p.clientWrites++
		if e.p.clientWrites == f.WriteFailNth {
			e.p.WriteFailFired = true
			k.Note(uint64(e.p.ID)<<2|1, 1<<43)
			return 0, opErr("write", syscall.EPIPE), false
		}
	}
	if e.isClient {
		if f.Reset && e.tx.w+take > f.ResetAt {
			take = f.ResetAt - e.tx.w
			if take < 0 {
				take = 0
			}
			e.tx.tapBytes(p[:take])
			e.tx.push(p[:take], now)
			e.p.c2s.reset, e.p.s2c.reset = true, true
			e.p.ResetFired = true
			k.Note(uint64(e.p.ID)<<2|1, uint64(take)|1<<40)
			return int(take), opErr("write", errReset), false
		}
		if f.WriteFail && e.tx.w+take > f.WriteFailAt {
			take = f.WriteFailAt - e.tx.w
			if take < 0 {
				take = 0
			}
			e.tx.tapBytes(p[:take])
			e.tx.push(p[:take], now)
			e.p.WriteFailFired = true
			k.Note(uint64(e.p.ID)<<2|1, uint64(take)|1<<41)
			return int(take), opErr("write", syscall.EIO), false
		}
	}
	e.tx.tapBytes(p[:take])
	e.tx.push(p[:take], now)
	k.Note(uint64(e.p.ID)<<2|b2u(e.isClient)<<1|1, uint64(take))
	return int(take), nil, take < int64(len(p))
}

// Close implements net.Conn.
func (e *End) Close() error {
	e.p.k.Yield(PtOther)
	err := e.close()
	e.p.k.Poke()
	return err
}

//go:norace
func (e *End) close() error {
	k := e.p.k
	e.CloseCount++
	if e.closed {
		return opErr("close", net.ErrClosed)
	}
	e.closed = true
	e.CloseStep = k.Steps
	e.CloseTime = k.Now()
	e.tx.wclosed = true
	e.tx.closeAt = k.Now() + e.tx.latency
	k.Note(uint64(e.p.ID)<<2|b2u(e.isClient)<<1, 1<<42)
	return nil
}

// ForceClose closes without a scheduling point (kernel-side cleanup).
//
//go:norace
func (e *End) ForceClose() {
	if !e.closed {
		e.closed = true
		e.tx.wclosed = true
		e.tx.closeAt = e.p.k.Now()
	}
}

// Closed reports whether Close has been called on this end.
//
//go:norace
func (e *End) Closed() bool { return e.CloseStep >= 0 }

// Buffered is the number of bytes that have arrived and not been read.
//
//go:norace
func (e *End) Buffered() int64 { return e.rx.avail(e.p.k.Now()) - e.rx.r }

// Pending is the number of bytes the peer has written and this end has not consumed yet
// (arrived or still in flight).
//
//go:norace
func (e *End) Pending() int64 { return e.rx.w - e.rx.r }

// PeerClosed reports whether the peer has closed its writing side (FIN possibly in flight).
//
//go:norace
func (e *End) PeerClosed() bool { return e.rx.wclosed }

type simAddr string

func (a simAddr) Network() string { return "sim" }
func (a simAddr) String() string  { return string(a) }

func (e *End) LocalAddr() net.Addr {
	if e.isClient {
		return simAddr("client")
	}
	return simAddr("server")
}

func (e *End) RemoteAddr() net.Addr {
	if e.isClient {
		return simAddr("server")
	}
	return simAddr("client")
}

//go:norace
func (e *End) toNs(t time.Time) int64 {
	if t.IsZero() {
		return 0
	}
	d := int64(t.Sub(e.p.k.epoch))
	if d <= 0 {
		d = 1
	}
	return d
}

//go:norace
func (e *End) SetDeadline(t time.Time) error {
	if e.closed {
		return opErr("set", net.ErrClosed)
	}
	if e.isClient && e.p.f.SetDeadlineFailNth > 0 {
		e.p.setDeadlineCalls++
		if e.p.setDeadlineCalls == e.p.f.SetDeadlineFailNth {
			e.p.SetDeadlineFailFired = true
			return opErr("set", syscall.EINVAL)
		}
	}
	e.rdl, e.wdl = e.toNs(t), e.toNs(t)
	return nil
}

//go:norace
func (e *End) SetReadDeadline(t time.Time) error {
	if e.closed {
		return opErr("set", net.ErrClosed)
	}
	e.rdl = e.toNs(t)
	return nil
}

//go:norace
func (e *End) SetWriteDeadline(t time.Time) error {
	if e.closed {
		return opErr("set", net.ErrClosed)
	}
	e.wdl = e.toNs(t)
	return nil
}

// ReadDeadlineNs returns the current read deadline (0: none).
//
//go:norace
func (e *End) ReadDeadlineNs() int64 { return e.rdl }

var _ net.Conn = (*End)(nil)
