// simcheck is the front door of the deterministic-simulation checks: it rebuilds the simulation
// test binary against /repo's current working tree, shards the run indices of a property over
// worker processes, minimises and replays every new violation in fresh processes, prints
// VIOLATION / KNOWN-FINDING lines, and writes the evidence file.
//
// Exit status: 0 property held on everything explored (or only known findings), 1 a new violation
// was found and reproduced from its replay file, 2 build/watchdog/determinism trouble.
package main

import (
	"encoding/json"
	"fmt"
	"os"
	"os/exec"
	"path/filepath"
	"runtime"
	"sort"
	"strconv"
	"strings"
	"sync"
	"time"
)

type violation struct {
	Tag      string          `json:"tag"`
	Detail   string          `json:"detail"`
	Index    int             `json:"index"`
	Scenario json.RawMessage `json:"scenario"`
	Count    int             `json:"count"`
}

type workerResult struct {
	Prop       string            `json:"prop"`
	Runs       int               `json:"runs"`
	Nontrivial []uint64          `json:"nontrivial"`
	Stats      map[string]int    `json:"stats"`
	Violations []violation       `json:"violations"`
	Samples    []json.RawMessage `json:"samples"`
	SimNs      int64             `json:"simNs"`
	Steps      int64             `json:"steps"`
	Infra      []string          `json:"infra"`
	Exhausted  bool              `json:"exhausted"`
	WallS      float64           `json:"wallS"`
	Digests    map[string]uint64 `json:"digests,omitempty"`
}

type replayFile struct {
	Property string          `json:"property"`
	Tag      string          `json:"tag"`
	Detail   string          `json:"detail"`
	Seed     uint64          `json:"seed"`
	Index    int             `json:"index"`
	Digest   uint64          `json:"digest"`
	Scenario json.RawMessage `json:"scenario"`
	Note     string          `json:"note,omitempty"`
}

type replayResult struct {
	Reproduced bool     `json:"reproduced"`
	Tags       []string `json:"tags"`
	Digest     uint64   `json:"digest"`
	Infra      string   `json:"infra,omitempty"`
}

type knownFinding struct {
	Property string `json:"property"`
	Match    string `json:"match"` // exact tag, or prefix ending in '*'
	What     string `json:"what"`
}

type knownFile struct {
	Findings []knownFinding `json:"findings"`
	Fixed    []string       `json:"fixed"`
}

type propMeta struct {
	Level          string
	Rule           string
	Assumptions    []string
	Real, Stubbed  []string
	NotCovered     []string
	Exhaustive     bool
	QuickBudget    time.Duration
	ThoroughBudget time.Duration
	QuickRuns      int
	ThoroughRuns   int
	Race           bool
}

var root = "/verif"

// repoDir is the go-mail tree under test: /repo, unless VERIF_REPO points the checks at a scratch
// copy (used to try deliberately broken trees, and by background runs on a snapshot).
var repoDir = "/repo"

func infra(f string, a ...any) {
	fmt.Fprintf(os.Stderr, "INFRA: "+f+"\n", a...)
	os.Exit(2)
}

func goEnv() []string {
	env := os.Environ()
	env = append(env, "GOFLAGS=-mod=mod", "GOPROXY=off", "GOSUMDB=off", "GOTOOLCHAIN=local", "CGO_ENABLED=1")
	return env
}

func goBin() string {
	for _, c := range []string{"/opt/veriftools/go1.26.8/bin/go", "/usr/local/bin/go1.26.8"} {
		if _, err := os.Stat(c); err == nil {
			return c
		}
	}
	return "go1.26.8"
}

func run(dir string, env []string, name string, args ...string) (string, error) {
	cmd := exec.Command(name, args...)
	cmd.Dir = dir
	cmd.Env = env
	out, err := cmd.CombinedOutput()
	return string(out), err
}

// build compiles the simulation test binary against the current /repo tree.
func build(id string, race bool) string {
	simDir := filepath.Join(root, "sim")
	bdir := filepath.Join(root, ".build")
	if d := os.Getenv("VERIF_BUILD_DIR"); d != "" {
		bdir = d
	}
	_ = os.MkdirAll(bdir, 0o755)
	if b, err := os.ReadFile(filepath.Join(repoDir, "go.sum")); err == nil && repoDir == "/repo" {
		_ = os.WriteFile(filepath.Join(simDir, "go.sum"), b, 0o644)
	}
	bin := filepath.Join(bdir, "props.test")
	args := []string{"test", "-c", "-o", bin}
	cleanup := func() {}
	if !race && !usesDialSeam(id) && !usesLockSeam(id) && repoDir != "/repo" {
		mf, err := altModfile(simDir, repoDir)
		if err != nil {
			infra("%v", err)
		}
		cleanup = func() { os.Remove(mf); os.Remove(strings.TrimSuffix(mf, ".mod") + ".sum") }
		args = []string{"test", "-c", "-modfile=" + mf, "-o", bin}
	}
	if race || usesDialSeam(id) || usesLockSeam(id) {
		bin = filepath.Join(bdir, "props-dial.test")
		tags := []string{"-tags", "simdial"}
		if usesLockSeam(id) {
			bin = filepath.Join(bdir, "props-lock.test")
			tags = []string{"-tags", "simhook"}
		}
		if race {
			bin = filepath.Join(bdir, "props-race.test")
			tags = []string{"-race", "-tags", "simhook"}
		}
		scratch, mf, err := instrument(simDir, race || usesLockSeam(id))
		cleanup = func() {
			if scratch != "" {
				os.RemoveAll(scratch)
			}
			if mf != "" {
				os.Remove(mf)
				os.Remove(strings.TrimSuffix(mf, ".mod") + ".sum")
			}
		}
		if err != nil {
			cleanup()
			infra("instrumenting scratch copy: %v", err)
		}
		args = append(append([]string{"test", "-c"}, tags...), "-modfile="+mf, "-o", bin)
	}
	args = append(args, "./props")
	out, err := run(simDir, goEnv(), goBin(), args...)
	cleanup()
	if err != nil {
		infra("build failed (this is not a verdict about the property):\n%s", out)
	}
	return bin
}

func loadKnown() knownFile {
	var k knownFile
	b, err := os.ReadFile(filepath.Join(root, "known_findings.json"))
	if err != nil {
		return k
	}
	if err := json.Unmarshal(b, &k); err != nil {
		infra("known_findings.json: %v", err)
	}
	return k
}

func (k knownFile) match(prop, tag string) *knownFinding {
	for i, f := range k.Findings {
		if f.Property != prop {
			continue
		}
		if f.Match == tag || (strings.HasSuffix(f.Match, "*") && strings.HasPrefix(tag, strings.TrimSuffix(f.Match, "*"))) {
			return &k.Findings[i]
		}
	}
	return nil
}

func main() {
	if r := os.Getenv("VERIF_ROOT"); r != "" {
		root = r
	}
	if r := os.Getenv("VERIF_REPO"); r != "" {
		repoDir = r
	}
	args := os.Args[1:]
	if len(args) >= 2 && args[0] == "--replay" {
		os.Exit(replayCmd(args[1]))
	}
	if len(args) >= 1 && args[0] == "--determinism" {
		os.Exit(determinismCmd(args[1:]))
	}
	if len(args) < 1 {
		fmt.Fprintln(os.Stderr, "usage: check <ID> [quick|thorough] | check --replay <file> | check --determinism <ID> [n]")
		os.Exit(2)
	}
	id := args[0]
	tier := "quick"
	if len(args) > 1 {
		tier = args[1]
	}
	if t := os.Getenv("VERIF_TIER"); t == "quick" || t == "thorough" {
		tier = t
	}
	seed := uint64(1)
	if s := os.Getenv("VERIF_SEED"); s != "" {
		v, err := strconv.ParseInt(s, 10, 64)
		if err != nil {
			infra("VERIF_SEED=%q is not an integer", s)
		}
		seed = uint64(v)
	}
	os.Exit(checkCmd(id, tier, seed))
}

func meta(bin, id string) propMeta {
	out, err := run(root, os.Environ(), bin, "-test.run", "^TestMeta$", "-sim.prop", id)
	if err != nil {
		infra("meta query failed: %v\n%s", err, out)
	}
	i := strings.Index(out, "META:")
	if i < 0 {
		infra("no meta in output:\n%s", out)
	}
	line := out[i+5:]
	if j := strings.IndexByte(line, '\n'); j >= 0 {
		line = line[:j]
	}
	var m propMeta
	if err := json.Unmarshal([]byte(line), &m); err != nil {
		infra("meta: %v", err)
	}
	return m
}

func workers() int {
	n := runtime.NumCPU()
	if n > 16 {
		n = 16
	}
	if w := os.Getenv("VERIF_WORKERS"); w != "" {
		if v, err := strconv.Atoi(w); err == nil && v > 0 {
			n = v
		}
	}
	return n
}

func isRace(id string) bool { return id == "C13" }

// usesLockSeam: checks (besides C13, which adds the race detector) that are built from the
// scratch copy with rewritten lock calls, so that goroutines the program under test starts itself
// contend for its locks inside the kernel.
func usesLockSeam(id string) bool { return id == "C03" || id == "C17" || id == "C19" }

// usesDialSeam: checks whose scenarios include go-mail's default dialers (net.Dialer / tls.Dialer
// rewritten to the simulated network in a scratch copy, see instrument).
func usesDialSeam(id string) bool { return id == "C07" || id == "C14" || id == "C17" || id == "C19" }

func checkCmd(id, tier string, seed uint64) int {
	start := time.Now()
	bin := build(id, isRace(id))
	m := meta(bin, id)
	budget, maxRuns := m.QuickBudget, m.QuickRuns
	if tier == "thorough" {
		budget, maxRuns = m.ThoroughBudget, m.ThoroughRuns
	}
	if b := os.Getenv("VERIF_BUDGET"); b != "" {
		if d, err := time.ParseDuration(b); err == nil {
			budget = d
		}
	}
	tmp, err := os.MkdirTemp("", "simcheck-"+id+"-")
	if err != nil {
		infra("%v", err)
	}
	defer os.RemoveAll(tmp)
	n := workers()
	results := make([]*workerResult, n)
	errs := make([]string, n)
	var wg sync.WaitGroup
	for k := 0; k < n; k++ {
		wg.Add(1)
		go func(k int) {
			defer wg.Done()
			out := filepath.Join(tmp, fmt.Sprintf("w%d.json", k))
			wtmp := filepath.Join(tmp, fmt.Sprintf("w%d", k))
			_ = os.MkdirAll(wtmp, 0o755)
			cmd := exec.Command(bin, "-test.run", "^TestWorker$", "-test.timeout", "0", "-sim.prop", id, "-sim.tier", tier,
				"-sim.seed", fmt.Sprint(seed), "-sim.shard", fmt.Sprint(k), "-sim.shards", fmt.Sprint(n), "-sim.max", fmt.Sprint(maxRuns),
				"-sim.budget", budget.String(), "-sim.out", out, "-sim.tmp", wtmp)
			cmd.Env = append(os.Environ(), "GOMAXPROCS=2", "GORACE=halt_on_error=0 history_size=3 log_path="+filepath.Join(wtmp, "race"), "VERIF_REPO="+repoDir)
			cmd.Dir = root
			done := make(chan struct{})
			var o []byte
			var werr error
			go func() { o, werr = cmd.CombinedOutput(); close(done) }()
			select {
			case <-done:
			case <-time.After(budget*3 + 2*time.Minute):
				_ = cmd.Process.Kill()
				<-done
				errs[k] = "worker exceeded its wall-clock watchdog"
				return
			}
			b, rerr := os.ReadFile(out)
			if rerr != nil {
				tail := string(o)
				if len(tail) > 3000 {
					tail = tail[len(tail)-3000:]
				}
				errs[k] = fmt.Sprintf("worker %d produced no result (%v):\n%s", k, werr, tail)
				return
			}
			var r workerResult
			if err := json.Unmarshal(b, &r); err != nil {
				errs[k] = err.Error()
				return
			}
			results[k] = &r
		}(k)
	}
	wg.Wait()
	for _, e := range errs {
		if e != "" {
			infra("%s", e)
		}
	}
	// merge
	total := workerResult{Stats: map[string]int{}}
	distinct := map[uint64]bool{}
	byTag := map[string]*violation{}
	var tags []string
	exhausted := true
	for _, r := range results {
		total.Runs += r.Runs
		total.SimNs += r.SimNs
		total.Steps += r.Steps
		for k, v := range r.Stats {
			total.Stats[k] += v
		}
		for _, h := range r.Nontrivial {
			distinct[h] = true
		}
		total.Infra = append(total.Infra, r.Infra...)
		if len(total.Samples) < 3 {
			total.Samples = append(total.Samples, r.Samples...)
		}
		if !r.Exhausted {
			exhausted = false
		}
		for i := range r.Violations {
			v := r.Violations[i]
			if old, ok := byTag[v.Tag]; ok {
				old.Count += v.Count
				if v.Index < old.Index {
					old.Index, old.Scenario, old.Detail = v.Index, v.Scenario, v.Detail
				}
				continue
			}
			byTag[v.Tag] = &v
			tags = append(tags, v.Tag)
		}
	}
	sort.Strings(tags)
	if len(total.Infra) > 0 {
		for _, s := range total.Infra {
			fmt.Fprintln(os.Stderr, "INFRA:", s)
		}
		infra("%d runs reported harness trouble; no verdict", len(total.Infra))
	}
	if total.Runs == 0 {
		infra("no runs executed")
	}
	known := loadKnown()
	var matched []string
	newViolations := 0
	notReproduced := 0
	for _, tag := range tags {
		v := byTag[tag]
		if kf := known.match(id, tag); kf != nil {
			fmt.Printf("KNOWN-FINDING: property=%s %s [%s; seen %d times; e.g. %s]\n", id, kf.What, tag, v.Count, oneLine(v.Detail, 200))
			matched = append(matched, tag)
			continue
		}
		// new violation: minimise, write replay file, reproduce in a fresh process
		rf := replayFile{Property: id, Tag: tag, Detail: v.Detail, Seed: seed, Index: v.Index, Scenario: v.Scenario}
		path := filepath.Join(replayDir(), id, fmt.Sprintf("%d-%d-%s.json", seed, v.Index, safe(tag)))
		_ = os.MkdirAll(filepath.Dir(path), 0o755)
		raw, _ := json.MarshalIndent(rf, "", " ")
		cand := filepath.Join(tmp, "cand.json")
		_ = os.WriteFile(cand, raw, 0o644)
		shr := filepath.Join(tmp, "shrunk.json")
		_ = os.Remove(shr)
		// a scenario that hangs is not minimised: every candidate would cost the hang limit
		if newViolations < 8 && !strings.HasSuffix(tag, ":hang") {
			_, _ = run(root, append(os.Environ(), "GOMAXPROCS=2", "VERIF_REPO="+repoDir, "GORACE=halt_on_error=0 history_size=3 log_path="+filepath.Join(tmp, "race-shrink")), bin, "-test.run", "^TestShrink$", "-test.timeout", "10m", "-sim.shrink", cand, "-sim.out", shr)
		}
		if b, err := os.ReadFile(shr); err == nil {
			raw = b
		}
		if err := os.WriteFile(path, raw, 0o644); err != nil {
			infra("%v", err)
		}
		rr, err := replayOnce(bin, path, tmp)
		if err != nil {
			infra("replay of %s failed to run: %v", path, err)
		}
		if !rr.Reproduced {
			// fall back to the unminimised scenario before declaring a determinism bug
			raw, _ = json.MarshalIndent(rf, "", " ")
			_ = os.WriteFile(path, raw, 0o644)
			rr, err = replayOnce(bin, path, tmp)
			if err != nil || !rr.Reproduced {
				// not reported as a violation: what does not replay is not believed
				fmt.Printf("NOT-REPRODUCED property=%s tag=%s (seen %d times; its scenario did not show it again in a fresh process)\n", id, tag, v.Count)
				_ = os.Remove(path)
				notReproduced++
				continue
			}
		}
		newViolations++
		fmt.Printf("VIOLATION property=%s replay=%s\n", id, path)
		fmt.Printf("  tag: %s\n  what: %s\n  seen in %d runs; first at run index %d (VERIF_SEED=%d)\n", tag, oneLine(v.Detail, 600), v.Count, v.Index, seed)
	}
	wall := time.Since(start).Seconds()
	writeEvidence(id, tier, seed, m, total, len(distinct), exhausted && maxRuns == 0, matched, newViolations, wall, n)
	fmt.Printf("%s %s: %d runs, %d distinct non-trivial cases, %.1f simulated s, %d new violation(s), %d known finding(s), %.1f s wall\n",
		id, tier, total.Runs, len(distinct), float64(total.SimNs)/1e9, newViolations, len(matched), wall)
	if newViolations > 0 {
		return 1
	}
	if notReproduced > 0 {
		// something was seen that cannot be replayed and nothing that can: the simulator (or an
		// uncontrolled source of nondeterminism in the tree) is the suspect, no verdict
		infra("%d violation(s) seen by the workers did not reproduce from their replay files, and none did: no verdict", notReproduced)
	}
	return 0
}

func oneLine(s string, n int) string {
	s = strings.ReplaceAll(s, "\n", " | ")
	if len(s) > n {
		s = s[:n] + "…"
	}
	return s
}

func safe(s string) string {
	var b strings.Builder
	for _, c := range s {
		switch {
		case c >= 'a' && c <= 'z', c >= 'A' && c <= 'Z', c >= '0' && c <= '9', c == '-', c == '_', c == '.':
			b.WriteRune(c)
		default:
			b.WriteByte('_')
		}
	}
	r := b.String()
	if len(r) > 100 {
		r = r[:100]
	}
	return r
}

func replayOnce(bin, path, tmp string) (replayResult, error) {
	out := filepath.Join(tmp, fmt.Sprintf("replay-%d.json", time.Now().UnixNano()))
	o, err := run(root, append(os.Environ(), "GOMAXPROCS=2", "VERIF_REPO="+repoDir, "GORACE=halt_on_error=0 history_size=3 log_path="+filepath.Join(tmp, fmt.Sprintf("race-replay-%d", time.Now().UnixNano()))), bin, "-test.run", "^TestReplay$", "-test.timeout", "10m", "-sim.replay", path, "-sim.out", out, "-sim.attempts", attemptsFor(path))
	var rr replayResult
	b, rerr := os.ReadFile(out)
	if rerr != nil {
		return rr, fmt.Errorf("%v %v: %s", err, rerr, o)
	}
	if err := json.Unmarshal(b, &rr); err != nil {
		return rr, err
	}
	if rr.Infra != "" {
		return rr, fmt.Errorf("%s", rr.Infra)
	}
	return rr, nil
}

func replayCmd(path string) int {
	b, err := os.ReadFile(path)
	if err != nil {
		infra("%v", err)
	}
	var rf replayFile
	if err := json.Unmarshal(b, &rf); err != nil {
		infra("%v", err)
	}
	bin := build(rf.Property, isRace(rf.Property))
	tmp, _ := os.MkdirTemp("", "simreplay-")
	defer os.RemoveAll(tmp)
	rr, err := replayOnce(bin, path, tmp)
	if err != nil {
		infra("%v", err)
	}
	if rr.Reproduced {
		fmt.Printf("VIOLATION property=%s replay=%s\n  tag: %s\n  what: %s\n", rf.Property, path, rf.Tag, oneLine(rf.Detail, 600))
		return 1
	}
	fmt.Printf("replay of %s: tag %s not reproduced on the current tree (tags seen: %v)\n", path, rf.Tag, rr.Tags)
	return 0
}

func writeEvidence(id, tier string, seed uint64, m propMeta, t workerResult, distinct int, exhaustive bool, matched []string, viol int, wall float64, nworkers int) {
	faults := map[string]int{}
	probes := map[string]int{}
	other := map[string]int{}
	for k, v := range t.Stats {
		switch {
		case strings.HasPrefix(k, "fault."):
			faults[strings.TrimPrefix(k, "fault.")] = v
		case strings.HasPrefix(k, "probe."):
			probes[strings.TrimPrefix(k, "probe.")] = v
		default:
			other[k] = v
		}
	}
	samples := []any{}
	for _, s := range t.Samples {
		var v any
		if json.Unmarshal(s, &v) == nil {
			samples = append(samples, v)
		}
	}
	if len(samples) == 0 {
		samples = append(samples, "no sample recorded")
	}
	perHour := 0.0
	if wall > 0 {
		perHour = float64(t.Runs) / wall * 3600
	}
	cov := map[string]any{
		"evaluations":            t.Runs,
		"distinct_nontrivial":    distinct,
		"rule":                   m.Rule,
		"samples":                samples,
		"exhaustive":             exhaustive && m.Exhaustive,
		"runs_per_hour":          int64(perHour),
		"simulated_seconds":      float64(t.SimNs) / 1e9,
		"kernel_steps":           t.Steps,
		"faults_fired":           faults,
		"reach_probes":           probes,
		"counters":               other,
		"workers":                nworkers,
		"components_real":        m.Real,
		"components_stubbed":     m.Stubbed,
		"not_covered":            m.NotCovered,
		"known_findings_matched": matched,
		"technique":              "deterministic simulation with fault injection (seeded kernel on a synctest bubble, simulated transport, reference SMTP server)",
	}
	ev := map[string]any{
		"property_id": id, "tier": tier, "seed": int64(seed), "level": m.Level, "coverage": cov,
		"assumptions": m.Assumptions, "wall_s": wall, "violations": viol,
	}
	b, _ := json.MarshalIndent(ev, "", " ")
	evdir := filepath.Join(root, "evidence")
	if d := os.Getenv("VERIF_EVIDENCE_DIR"); d != "" {
		evdir = d // used when the checks are pointed at deliberately broken trees
	}
	_ = os.MkdirAll(evdir, 0o755)
	if err := os.WriteFile(filepath.Join(evdir, id+".json"), b, 0o644); err != nil {
		infra("%v", err)
	}
}

// determinismCmd runs the first n run indices of a property in several fresh processes at
// different GOMAXPROCS and compares the per-run digests.
func determinismCmd(args []string) int {
	if len(args) < 1 {
		infra("usage: --determinism <ID> [n [stride]]")
	}
	id := args[0]
	n := 40
	if len(args) > 1 {
		n, _ = strconv.Atoi(args[1])
	}
	// optional third argument: a stride — run indices 0, stride, 2*stride, … instead of 0..n-1,
	// which spreads the sample over an enumerated scenario list
	stride := "1"
	if len(args) > 2 {
		if v, err := strconv.Atoi(args[2]); err == nil && v > 0 {
			stride = fmt.Sprint(v)
		}
	}
	bin := build(id, isRace(id))
	tmp, _ := os.MkdirTemp("", "simdet-")
	defer os.RemoveAll(tmp)
	var ref map[string]uint64
	bad := 0
	for pi, procs := range []string{"1", "4", "16", "2", "8"} {
		out := filepath.Join(tmp, "d"+procs+".json")
		wtmp := filepath.Join(tmp, "t"+procs)
		_ = os.MkdirAll(wtmp, 0o755)
		seed := "1"
		if s := os.Getenv("VERIF_SEED"); s != "" {
			seed = s
		}
		o, err := run(root, append(os.Environ(), "GOMAXPROCS="+procs, "VERIF_REPO="+repoDir, "GORACE=halt_on_error=0 history_size=3 log_path="+filepath.Join(wtmp, "race")), bin, "-test.run", "^TestWorker$", "-test.timeout", "0", "-sim.prop", id,
			"-sim.seed", seed, "-sim.shard", "0", "-sim.shards", stride, "-sim.max", fmt.Sprint(n), "-sim.budget", "30m", "-sim.out", out, "-sim.digests", "-sim.tmp", wtmp)
		b, rerr := os.ReadFile(out)
		if rerr != nil {
			infra("determinism worker: %v %s", err, o)
		}
		var r workerResult
		_ = json.Unmarshal(b, &r)
		if pi == 0 {
			ref = r.Digests
			fmt.Printf("GOMAXPROCS=%s: %d runs\n", procs, len(r.Digests))
			continue
		}
		diff := 0
		for k, v := range ref {
			if r.Digests[k] != v {
				diff++
				if diff <= 3 {
					fmt.Printf("  run %s: digest %x vs %x\n", k, v, r.Digests[k])
				}
			}
		}
		fmt.Printf("GOMAXPROCS=%s: %d runs, %d digests differ\n", procs, len(r.Digests), diff)
		bad += diff
	}
	if bad > 0 {
		fmt.Println("NONDETERMINISM detected")
		return 2
	}
	fmt.Println("deterministic: all digests equal across processes and GOMAXPROCS settings")
	return 0
}

// attemptsFor: C11 depends on Go's map iteration order, which has no seam; its replays are
// repeated (DESIGN.md section 5/C11). Everything else replays exactly, once.
func attemptsFor(path string) string {
	if strings.Contains(path, "/C11/") {
		return "20"
	}
	if strings.Contains(path, "/C13/") {
		// a task that blocks outside the kernel's knowledge (only seen on broken trees) runs
		// unserialised for a moment when it wakes; such replays may need a second attempt
		return "5"
	}
	return "1"
}

func replayDir() string {
	if d := os.Getenv("VERIF_REPLAY_DIR"); d != "" {
		return d
	}
	return filepath.Join(root, "replays")
}
