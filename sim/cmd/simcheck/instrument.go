package main

import (
	"bytes"
	"fmt"
	"go/ast"
	"go/format"
	"go/parser"
	"go/token"
	"io"
	"io/fs"
	"os"
	"path/filepath"
	"strings"
)

// instrument builds the scratch copy used by C13 (DESIGN.md §3.4): /repo's working tree is copied
// to a directory outside /repo and /verif, and in the packages mail (root) and smtp every call of
// Lock/Unlock/RLock/RUnlock is rewritten into simhook.Lock(&m) etc. The hook IS the rewritten
// call: if a change to go-mail removes a lock, the hook disappears with it, so the instrumentation
// can never supply mutual exclusion that the code lacks. Nothing is written to /repo.
//
// It returns the scratch directory and an alternative go.mod (replace → scratch) for -modfile.
func instrument(simDir string) (scratch, modfile string, err error) {
	scratch, err = os.MkdirTemp("", "gomail-instr-")
	if err != nil {
		return "", "", err
	}
	src := repoDir
	err = filepath.WalkDir(src, func(path string, d fs.DirEntry, werr error) error {
		if werr != nil {
			return werr
		}
		rel, _ := filepath.Rel(src, path)
		if d.IsDir() {
			if d.Name() == ".git" {
				return filepath.SkipDir
			}
			return os.MkdirAll(filepath.Join(scratch, rel), 0o755)
		}
		if !d.Type().IsRegular() {
			return nil
		}
		return copyFile(path, filepath.Join(scratch, rel))
	})
	if err != nil {
		return scratch, "", err
	}
	total := 0
	for _, dir := range []string{".", "smtp"} {
		ents, err := os.ReadDir(filepath.Join(scratch, dir))
		if err != nil {
			return scratch, "", err
		}
		for _, e := range ents {
			if e.IsDir() || !strings.HasSuffix(e.Name(), ".go") || strings.HasSuffix(e.Name(), "_test.go") {
				continue
			}
			n, err := rewriteLocks(filepath.Join(scratch, dir, e.Name()))
			if err != nil {
				return scratch, "", fmt.Errorf("%s: %w", e.Name(), err)
			}
			total += n
		}
	}
	if err := os.MkdirAll(filepath.Join(scratch, "simhook"), 0o755); err != nil {
		return scratch, "", err
	}
	if err := os.WriteFile(filepath.Join(scratch, "simhook", "simhook.go"), []byte(simhookSrc), 0o644); err != nil {
		return scratch, "", err
	}
	fmt.Fprintf(os.Stderr, "instrumented scratch copy: %d lock calls rewritten\n", total)
	modfile, err = altModfile(simDir, scratch)
	return scratch, modfile, err
}

// altModfile writes a copy of sim/go.mod whose replace directive points at dir.
func altModfile(simDir, dir string) (string, error) {
	mod, err := os.ReadFile(filepath.Join(simDir, "go.mod"))
	if err != nil {
		return "", err
	}
	alt := strings.Replace(string(mod), "=> /repo", "=> "+dir, 1)
	if alt == string(mod) {
		return "", fmt.Errorf("go.mod has no replace directive to /repo")
	}
	modfile := filepath.Join(simDir, fmt.Sprintf("alt-%d.mod", os.Getpid()))
	if err := os.WriteFile(modfile, []byte(alt), 0o644); err != nil {
		return "", err
	}
	if sum, err := os.ReadFile(filepath.Join(simDir, "go.sum")); err == nil {
		_ = os.WriteFile(strings.TrimSuffix(modfile, ".mod")+".sum", sum, 0o644)
	}
	return modfile, nil
}

func copyFile(src, dst string) error {
	in, err := os.Open(src)
	if err != nil {
		return err
	}
	defer in.Close()
	out, err := os.Create(dst)
	if err != nil {
		return err
	}
	defer out.Close()
	_, err = io.Copy(out, in)
	return err
}

// rewriteLocks rewrites x.Lock() → simhook.Lock(&x) (and Unlock/RLock/RUnlock, also in defer and
// go statements) in one file and returns the number of rewritten calls.
func rewriteLocks(path string) (int, error) {
	fset := token.NewFileSet()
	f, err := parser.ParseFile(fset, path, nil, parser.ParseComments)
	if err != nil {
		return 0, err
	}
	n := 0
	ast.Inspect(f, func(node ast.Node) bool {
		call, ok := node.(*ast.CallExpr)
		if !ok || len(call.Args) != 0 {
			return true
		}
		sel, ok := call.Fun.(*ast.SelectorExpr)
		if !ok {
			return true
		}
		switch sel.Sel.Name {
		case "Lock", "Unlock", "RLock", "RUnlock":
		default:
			return true
		}
		recv := sel.X
		call.Fun = &ast.SelectorExpr{X: ast.NewIdent("simhook"), Sel: ast.NewIdent(sel.Sel.Name)}
		call.Args = []ast.Expr{&ast.UnaryExpr{Op: token.AND, X: recv}}
		n++
		return true
	})
	if n == 0 {
		return 0, nil
	}
	// add the import
	imp := &ast.ImportSpec{Path: &ast.BasicLit{Kind: token.STRING, Value: `"github.com/wneessen/go-mail/simhook"`}}
	added := false
	for _, d := range f.Decls {
		if gd, ok := d.(*ast.GenDecl); ok && gd.Tok == token.IMPORT {
			gd.Specs = append(gd.Specs, imp)
			if !gd.Lparen.IsValid() {
				gd.Lparen = gd.Pos()
				gd.Rparen = gd.End()
			}
			added = true
			break
		}
	}
	if !added {
		f.Decls = append([]ast.Decl{&ast.GenDecl{Tok: token.IMPORT, Specs: []ast.Spec{imp}}}, f.Decls...)
	}
	f.Imports = append(f.Imports, imp)
	var buf bytes.Buffer
	if err := format.Node(&buf, fset, f); err != nil {
		return 0, err
	}
	return n, os.WriteFile(path, buf.Bytes(), 0o644)
}

const simhookSrc = `// Package simhook exists only in the instrumented scratch copy built for the concurrency
// check. Every lock operation of the packages mail and smtp goes through it, which makes lock
// hand-off a scheduling decision of the simulation kernel.
package simhook

import "unsafe"

type locker interface {
	Lock()
	Unlock()
}

type rlocker interface {
	RLock()
	RUnlock()
}

// Acquire parks the calling task until the lock at addr can be taken (never blocks inside the
// real mutex); Release tells the kernel the lock is free again and offers a context switch.
var (
	Acquire func(addr uintptr, write bool)
	Release func(addr uintptr, write bool)
)

func addr(m any) uintptr { return (*[2]uintptr)(unsafe.Pointer(&m))[1] }

func Lock(m locker) {
	if f := Acquire; f != nil {
		f(addr(m), true)
	}
	m.Lock()
}

func Unlock(m locker) {
	m.Unlock()
	if f := Release; f != nil {
		f(addr(m), true)
	}
}

func RLock(m rlocker) {
	if f := Acquire; f != nil {
		f(addr(m), false)
	}
	m.RLock()
}

func RUnlock(m rlocker) {
	m.RUnlock()
	if f := Release; f != nil {
		f(addr(m), false)
	}
}
`
