package main

import "errors"

// instrument is replaced by the real scratch-copy lock rewriting when C13 is built.
func instrument(simDir string) (scratch, modfile string, err error) {
	return "", "", errors.New("instrumentation not built yet")
}
