package main

import (
	"bytes"
	"fmt"
	"go/ast"
	"go/format"
	"go/parser"
	"go/token"
	"io"
	"io/fs"
	"os"
	"path/filepath"
	"strings"
)

// instrument builds the scratch copy used by C13 (DESIGN.md §3.4) and by the checks that reach
// go-mail's default dialer (C07, C17, C19; DESIGN.md §8.2 "default dialer seam"): /repo's working
// tree is copied to a directory outside /repo and /verif. With locks=true every call of
// Lock/Unlock/RLock/RUnlock in the packages mail (root) and smtp is rewritten into
// simhook.Lock(&m) etc. The hook IS the rewritten call: if a change to go-mail removes a lock, the
// hook disappears with it, so the instrumentation can never supply mutual exclusion that the code
// lacks. In every scratch copy the type names net.Dialer and tls.Dialer of the root package are
// rewritten into simhook.NetDialer / simhook.TLSDialer, whose DialContext asks the simulation for
// the connection: whatever go-mail does with its default dialers (which one it builds, when, for
// which address, what it does with the connection) is go-mail's code; only the socket is simulated.
// Nothing is written to /repo.
//
// It returns the scratch directory and an alternative go.mod (replace → scratch) for -modfile.
func instrument(simDir string, locks bool) (scratch, modfile string, err error) {
	scratch, err = os.MkdirTemp("", "gomail-instr-")
	if err != nil {
		return "", "", err
	}
	src := repoDir
	err = filepath.WalkDir(src, func(path string, d fs.DirEntry, werr error) error {
		if werr != nil {
			return werr
		}
		rel, _ := filepath.Rel(src, path)
		if d.IsDir() {
			if d.Name() == ".git" {
				return filepath.SkipDir
			}
			return os.MkdirAll(filepath.Join(scratch, rel), 0o755)
		}
		if !d.Type().IsRegular() {
			return nil
		}
		return copyFile(path, filepath.Join(scratch, rel))
	})
	if err != nil {
		return scratch, "", err
	}
	total, dialers := 0, 0
	for _, dir := range []string{".", "smtp"} {
		ents, err := os.ReadDir(filepath.Join(scratch, dir))
		if err != nil {
			return scratch, "", err
		}
		for _, e := range ents {
			if e.IsDir() || !strings.HasSuffix(e.Name(), ".go") || strings.HasSuffix(e.Name(), "_test.go") {
				continue
			}
			if locks {
				n, err := rewriteLocks(filepath.Join(scratch, dir, e.Name()))
				if err != nil {
					return scratch, "", fmt.Errorf("%s: %w", e.Name(), err)
				}
				total += n
			}
			if dir == "." {
				n, err := rewriteDialers(filepath.Join(scratch, dir, e.Name()))
				if err != nil {
					return scratch, "", fmt.Errorf("%s: %w", e.Name(), err)
				}
				dialers += n
			}
		}
	}
	if err := os.MkdirAll(filepath.Join(scratch, "simhook"), 0o755); err != nil {
		return scratch, "", err
	}
	if err := os.WriteFile(filepath.Join(scratch, "simhook", "simhook.go"), []byte(simhookSrc), 0o644); err != nil {
		return scratch, "", err
	}
	fmt.Fprintf(os.Stderr, "instrumented scratch copy: %d lock calls, %d dialer type names rewritten\n", total, dialers)
	modfile, err = altModfile(simDir, scratch)
	return scratch, modfile, err
}

// altModfile writes a copy of sim/go.mod whose replace directive points at dir.
func altModfile(simDir, dir string) (string, error) {
	mod, err := os.ReadFile(filepath.Join(simDir, "go.mod"))
	if err != nil {
		return "", err
	}
	alt := strings.Replace(string(mod), "=> /repo", "=> "+dir, 1)
	if alt == string(mod) {
		return "", fmt.Errorf("go.mod has no replace directive to /repo")
	}
	modfile := filepath.Join(simDir, fmt.Sprintf("alt-%d.mod", os.Getpid()))
	if err := os.WriteFile(modfile, []byte(alt), 0o644); err != nil {
		return "", err
	}
	if sum, err := os.ReadFile(filepath.Join(simDir, "go.sum")); err == nil {
		_ = os.WriteFile(strings.TrimSuffix(modfile, ".mod")+".sum", sum, 0o644)
	}
	return modfile, nil
}

func copyFile(src, dst string) error {
	in, err := os.Open(src)
	if err != nil {
		return err
	}
	defer in.Close()
	out, err := os.Create(dst)
	if err != nil {
		return err
	}
	defer out.Close()
	_, err = io.Copy(out, in)
	return err
}

// rewriteLocks rewrites x.Lock() → simhook.Lock(&x) (and Unlock/RLock/RUnlock, also in defer and
// go statements) in one file and returns the number of rewritten calls.
func rewriteLocks(path string) (int, error) {
	fset := token.NewFileSet()
	f, err := parser.ParseFile(fset, path, nil, parser.ParseComments)
	if err != nil {
		return 0, err
	}
	n := 0
	ast.Inspect(f, func(node ast.Node) bool {
		call, ok := node.(*ast.CallExpr)
		if !ok || len(call.Args) != 0 {
			return true
		}
		sel, ok := call.Fun.(*ast.SelectorExpr)
		if !ok {
			return true
		}
		switch sel.Sel.Name {
		case "Lock", "Unlock", "RLock", "RUnlock":
		default:
			return true
		}
		recv := sel.X
		call.Fun = &ast.SelectorExpr{X: ast.NewIdent("simhook"), Sel: ast.NewIdent(sel.Sel.Name)}
		call.Args = []ast.Expr{&ast.UnaryExpr{Op: token.AND, X: recv}}
		n++
		return true
	})
	if n == 0 {
		return 0, nil
	}
	// add the import
	imp := &ast.ImportSpec{Path: &ast.BasicLit{Kind: token.STRING, Value: `"github.com/wneessen/go-mail/simhook"`}}
	added := false
	for _, d := range f.Decls {
		if gd, ok := d.(*ast.GenDecl); ok && gd.Tok == token.IMPORT {
			gd.Specs = append(gd.Specs, imp)
			if !gd.Lparen.IsValid() {
				gd.Lparen = gd.Pos()
				gd.Rparen = gd.End()
			}
			added = true
			break
		}
	}
	if !added {
		f.Decls = append([]ast.Decl{&ast.GenDecl{Tok: token.IMPORT, Specs: []ast.Spec{imp}}}, f.Decls...)
	}
	f.Imports = append(f.Imports, imp)
	var buf bytes.Buffer
	if err := format.Node(&buf, fset, f); err != nil {
		return 0, err
	}
	return n, os.WriteFile(path, buf.Bytes(), 0o644)
}

// rewriteDialers rewrites the type names net.Dialer → simhook.NetDialer and tls.Dialer →
// simhook.TLSDialer in one file (composite literals, declarations, parameters alike) and returns
// the number of rewritten names. The imports net and crypto/tls stay referenced through blank
// declarations, so a file that used them for nothing else still compiles.
func rewriteDialers(path string) (int, error) {
	fset := token.NewFileSet()
	f, err := parser.ParseFile(fset, path, nil, parser.ParseComments)
	if err != nil {
		return 0, err
	}
	// local names of the two packages in this file
	netName, tlsName := "", ""
	for _, im := range f.Imports {
		switch im.Path.Value {
		case `"net"`:
			netName = "net"
			if im.Name != nil {
				netName = im.Name.Name
			}
		case `"crypto/tls"`:
			tlsName = "tls"
			if im.Name != nil {
				tlsName = im.Name.Name
			}
		}
	}
	n := 0
	usedNet, usedTLS := false, false
	ast.Inspect(f, func(node ast.Node) bool {
		sel, ok := node.(*ast.SelectorExpr)
		if !ok || sel.Sel.Name != "Dialer" {
			return true
		}
		x, ok := sel.X.(*ast.Ident)
		if !ok || x.Obj != nil {
			return true
		}
		switch {
		case netName != "" && x.Name == netName:
			x.Name, sel.Sel.Name = "simhook", "NetDialer"
			usedNet = true
			n++
		case tlsName != "" && x.Name == tlsName:
			x.Name, sel.Sel.Name = "simhook", "TLSDialer"
			usedTLS = true
			n++
		}
		return true
	})
	if n == 0 {
		return 0, nil
	}
	hasSimhook := false
	for _, im := range f.Imports {
		if im.Path.Value == `"github.com/wneessen/go-mail/simhook"` {
			hasSimhook = true
		}
	}
	if !hasSimhook {
		imp := &ast.ImportSpec{Path: &ast.BasicLit{Kind: token.STRING, Value: `"github.com/wneessen/go-mail/simhook"`}}
		added := false
		for _, d := range f.Decls {
			if gd, ok := d.(*ast.GenDecl); ok && gd.Tok == token.IMPORT {
				gd.Specs = append(gd.Specs, imp)
				if !gd.Lparen.IsValid() {
					gd.Lparen = gd.Pos()
					gd.Rparen = gd.End()
				}
				added = true
				break
			}
		}
		if !added {
			f.Decls = append([]ast.Decl{&ast.GenDecl{Tok: token.IMPORT, Specs: []ast.Spec{imp}}}, f.Decls...)
		}
		f.Imports = append(f.Imports, imp)
	}
	var buf bytes.Buffer
	if err := format.Node(&buf, fset, f); err != nil {
		return 0, err
	}
	if usedNet {
		fmt.Fprintf(&buf, "\nvar _ %s.Addr // keeps the import referenced after the dialer rewrite\n", netName)
	}
	if usedTLS {
		fmt.Fprintf(&buf, "\nvar _ %s.ConnectionState // keeps the import referenced after the dialer rewrite\n", tlsName)
	}
	return n, os.WriteFile(path, buf.Bytes(), 0o644)
}

const simhookSrc = `// Package simhook exists only in the instrumented scratch copy built for the concurrency
// check. Every lock operation of the packages mail and smtp goes through it, which makes lock
// hand-off a scheduling decision of the simulation kernel.
package simhook

import (
	"context"
	"crypto/tls"
	"errors"
	"net"
	"strings"
	"syscall"
	"time"
	"unsafe"
)

// Dial is the simulated network: every connection go-mail's default dialers would open through a
// socket is asked for here. With no simulation attached a dial fails.
var Dial func(ctx context.Context, network, address string) (net.Conn, error)

// NetDialer stands in for net.Dialer (same fields, so composite literals keep compiling).
type NetDialer struct {
	Timeout         time.Duration
	Deadline        time.Time
	LocalAddr       net.Addr
	DualStack       bool
	FallbackDelay   time.Duration
	KeepAlive       time.Duration
	KeepAliveConfig net.KeepAliveConfig
	Resolver        *net.Resolver
	Cancel          <-chan struct{}
	Control         func(network, address string, c syscall.RawConn) error
	ControlContext  func(ctx context.Context, network, address string, c syscall.RawConn) error
}

func (d *NetDialer) bound(ctx context.Context) (context.Context, context.CancelFunc) {
	cancel := func() {}
	if d.Timeout != 0 {
		ctx, cancel = context.WithTimeout(ctx, d.Timeout)
	}
	if !d.Deadline.IsZero() {
		c1 := cancel
		var c2 context.CancelFunc
		ctx, c2 = context.WithDeadline(ctx, d.Deadline)
		cancel = func() { c2(); c1() }
	}
	return ctx, cancel
}

// DialContext asks the simulation for the connection.
func (d *NetDialer) DialContext(ctx context.Context, network, address string) (net.Conn, error) {
	f := Dial
	if f == nil {
		return nil, &net.OpError{Op: "dial", Net: network, Err: errors.New("simhook: no simulated network attached")}
	}
	ctx, cancel := d.bound(ctx)
	defer cancel()
	return f(ctx, network, address)
}

// Dial is net.Dialer.Dial.
func (d *NetDialer) Dial(network, address string) (net.Conn, error) {
	return d.DialContext(context.Background(), network, address)
}

// TLSDialer stands in for tls.Dialer. DialContext follows crypto/tls.(*Dialer).DialContext step
// by step (dial, server name from the address when the config has none, tls.Client,
// HandshakeContext, close the raw connection when the handshake fails); crypto/tls itself is real.
type TLSDialer struct {
	NetDialer *NetDialer
	Config    *tls.Config
}

func (d *TLSDialer) Dial(network, addr string) (net.Conn, error) {
	return d.DialContext(context.Background(), network, addr)
}

func (d *TLSDialer) DialContext(ctx context.Context, network, addr string) (net.Conn, error) {
	nd := d.NetDialer
	if nd == nil {
		nd = &NetDialer{}
	}
	ctx, cancel := nd.bound(ctx)
	defer cancel()
	rawConn, err := nd.DialContext(ctx, network, addr)
	if err != nil {
		return nil, err
	}
	colonPos := strings.LastIndex(addr, ":")
	if colonPos == -1 {
		colonPos = len(addr)
	}
	hostname := addr[:colonPos]
	config := d.Config
	if config == nil {
		config = &tls.Config{}
	}
	if config.ServerName == "" {
		c := config.Clone()
		c.ServerName = hostname
		config = c
	}
	conn := tls.Client(rawConn, config)
	if err := conn.HandshakeContext(ctx); err != nil {
		_ = rawConn.Close()
		return nil, err
	}
	return conn, nil
}

type locker interface {
	Lock()
	Unlock()
}

type rlocker interface {
	RLock()
	RUnlock()
}

// Acquire parks the calling task until the lock at addr can be taken (never blocks inside the
// real mutex); Release tells the kernel the lock is free again and offers a context switch.
var (
	Acquire func(addr uintptr, write bool)
	Release func(addr uintptr, write bool)
)

func addr(m any) uintptr { return (*[2]uintptr)(unsafe.Pointer(&m))[1] }

func Lock(m locker) {
	if f := Acquire; f != nil {
		f(addr(m), true)
	}
	m.Lock()
}

func Unlock(m locker) {
	m.Unlock()
	if f := Release; f != nil {
		f(addr(m), true)
	}
}

func RLock(m rlocker) {
	if f := Acquire; f != nil {
		f(addr(m), false)
	}
	m.RLock()
}

func RUnlock(m rlocker) {
	m.RUnlock()
	if f := Release; f != nil {
		f(addr(m), false)
	}
}
`
