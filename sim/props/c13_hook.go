//go:build simhook

package props

import (
	"github.com/wneessen/go-mail/simhook"

	"verif/sim/sim"
)

// installLockHooks routes every lock operation of the instrumented go-mail copy through the
// kernel: a task that wants a lock parks until the kernel grants it, so no task ever blocks inside
// the real mutex and lock hand-off is a seeded scheduling decision.
func installLockHooks(k *sim.Kernel) bool {
	simhook.Acquire = func(addr uintptr, write bool) {
		pt := sim.PtLock
		if !write {
			pt = sim.PtRLock
		}
		k.AcquireLock(addr, write, pt)
	}
	simhook.Release = func(addr uintptr, write bool) {
		k.ReleaseLock(addr, write)
		pt := sim.PtUnlock
		if !write {
			pt = sim.PtRUnlock
		}
		if k.Current() != nil && !k.Aborting() {
			k.Yield(pt)
		}
	}
	return true
}

func init() { LockSeamAll = !sim.RaceEnabled }

func removeLockHooks() {
	simhook.Acquire, simhook.Release = nil, nil
}
