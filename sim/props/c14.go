package props

import (
	"context"
	"crypto/rand"
	"fmt"
	"github.com/wneessen/go-mail/smtp"
	"io"
	"strings"
	"testing"
	"time"

	"verif/sim/refsmtpd"
	"verif/sim/sim"
)

// C14 — SASL mechanisms interoperate with conforming servers.
//
// System: mail.Client dial against the reference server with reference SASL implementations
// (RFC 4616, LOGIN draft, RFC 2195, XOAUTH2, RFC 5802/7677, RFC 5929/9266; validated on the RFCs'
// vectors at start-up). The server's salt (0..64 bytes), iteration count (1..20000), nonce suffix
// and CRAM challenge come from the run PRNG; stored and presented credentials are equal or
// minimally different. PLUS variants run over a real TLS 1.2 / 1.3 session on the simulated
// transport, the server computing the binding from its own connection state. Oracle:
// authentication succeeds ⇔ the credentials are equal; client nonces are pairwise different
// across all attempts of a run, including a retry on the same Auth value after a failed attempt.

type C14Scenario struct {
	Client ClientCfg       `json:"client"`
	Server refsmtpd.Config `json:"server"`
	Equal  bool            `json:"equal"`
	How    string          `json:"how"`   // how the presented credentials differ
	Retry  string          `json:"retry"` // "" | fail-then-retry (same Auth value, new connection) | redial (same Client, second connection)
	Sched  uint64          `json:"sched"`
	// RandShort: the process's source of randomness (crypto/rand.Reader) returns short reads
	// without an error, as an io.Reader may: every other Read delivers nothing. A nonce must
	// still be made of fresh bytes.
	RandShort bool `json:"randShort,omitempty"`
	// Via "smtp": smtp.Client.Auth is called directly on a caller-made smtp.Client; the verdict
	// is what Auth returns, with nothing of the mail package after it
	Via string `json:"via,omitempty"`
}

type c14 struct{}

func init() { register(&c14{}) }

func (*c14) ID() string                     { return "C14" }
func (*c14) Level() string                  { return "exploration" }
func (*c14) Decode(raw []byte) (any, error) { return decodeInto[C14Scenario](raw) }

var c14Mechs = []string{"PLAIN", "LOGIN", "CRAM-MD5", "XOAUTH2", "SCRAM-SHA-1", "SCRAM-SHA-256", "SCRAM-SHA-1-PLUS", "SCRAM-SHA-256-PLUS", "PLAIN-NOENC", "LOGIN-NOENC", "AUTODISCOVER", "CUSTOM-SCRAM-SHA-256", "CUSTOM-SCRAM-SHA-1", "CUSTOM-CRAM-MD5", "CUSTOM-LOGIN", "CUSTOM-PLAIN"}

// Code points on which SASLprep (RFC 4013) and PRECIS OpaqueString (RFC 8265) are both the
// identity: the verdict must not hinge on which of the two profiles a conforming server applies.
var c14Unicode = []string{"é", "ü", "ß", "ж", "λ", "日", "本", "ñ", "ø"}

func genCred(r *sim.Rand, scram, noBlankEdges bool) string {
	n := 1 + r.Intn(16)
	if r.Chance(1, 10) {
		n = 20 + r.Intn(60)
	}
	ascii := "abcdefghijklmnopqrstuvwxyzABCDEFGHIJKLMNOPQRSTUVWXYZ0123456789"
	special := []string{",", "=", ",,", "==", "=2C", "=3D", " ", "@", ":", ";", "\\", "\"", "'", "<", ">", "%", "+", "/", "*", "!", "n=", "r=", ",p="}
	var b strings.Builder
	for k := 0; k < n; k++ {
		switch r.Intn(8) {
		case 0:
			b.WriteString(sim.Pick(r, special))
		case 1:
			b.WriteString(sim.Pick(r, c14Unicode))
		case 2:
			if !scram && r.Chance(1, 4) {
				b.WriteByte(byte(1 + r.Intn(31))) // NUL-free control character
			} else {
				b.WriteByte(ascii[r.Intn(len(ascii))])
			}
		default:
			b.WriteByte(ascii[r.Intn(len(ascii))])
		}
	}
	s := b.String()
	if noBlankEdges {
		s = strings.Trim(s, " ")
		if s == "" {
			s = "x"
		}
	}
	return s
}

func (p *c14) Gen(seed uint64, i int, tier string) (any, bool) {
	n := 80000
	if tier == "thorough" {
		n = 600000
	}
	if i >= n {
		return nil, false
	}
	r := sim.NewRand(sim.Derive(seed, 14, uint64(i)))
	mech := c14Mechs[i%len(c14Mechs)]
	scram := strings.Contains(mech, "SCRAM") || mech == "AUTODISCOVER"
	sc := &C14Scenario{Sched: sim.Derive(seed, 14, uint64(i), 1)}
	// CRAM-MD5 puts user and digest on one line separated by a blank; a user name with a
	// trailing blank is still unambiguous (the digest is the last field)
	user, pass := genCred(r, scram, false), genCred(r, scram, false)
	if strings.ContainsAny(user, "\x00") || strings.ContainsAny(pass, "\x00") {
		user, pass = "user", "pass"
	}
	// empty parts, where the mechanism has room for them: RFC 4616 (PLAIN) demands 1*SAFE for
	// authcid and passwd and RFC 8265 forbids zero-length SCRAM user names and passwords, so a
	// conforming verifier accepts neither and the client may refuse them itself
	e1, e2 := r.Chance(1, 14), r.Chance(1, 14)
	if mech == "LOGIN" || mech == "LOGIN-NOENC" || mech == "CRAM-MD5" || mech == "XOAUTH2" {
		if e1 {
			user = ""
		}
		if e2 {
			pass = ""
		}
	}
	stored := refsmtpd.AuthCfg{User: user, Pass: pass}
	stored.Salt = r.Bytes(sim.Pick(r, []int{0, 1, 4, 8, 16, 16, 32, 64, r.Intn(65)}))
	stored.Iter = sim.Pick(r, []int{1, 2, 3, 16, 64, 100, 1 + r.Intn(300), 4096, 1 + r.Intn(20000)})
	if !r.Chance(1, 12) && stored.Iter > 5000 {
		stored.Iter = 1 + r.Intn(5000)
	}
	sfx := []byte(genCred(r, true, true))
	for k := range sfx {
		if sfx[k] < 0x21 || sfx[k] > 0x7e || sfx[k] == ',' {
			sfx[k] = 'x'
		}
	}
	stored.NonceSuffix = string(sfx)
	stored.LoginPrompts = sim.Pick(r, LoginPromptSets)
	stored.FirstExt = sim.Pick(r, []string{"", "", "", ",x=ext", ",x=a,y=b=c", ",z="})
	stored.CramChallenge = fmt.Sprintf("<%d.%d@%s>", r.Intn(100000), r.Intn(1<<30), "mx.sim.example")
	pu, pp := user, pass
	sc.Equal = r.Chance(1, 2)
	sc.How = "equal"
	if !sc.Equal {
		sc.How = sim.Pick(r, []string{"pass-byte", "user-byte", "pass-case", "pass-trailing-blank", "swapped", "pass-prefix", "user-case"})
		flip := func(s string) string {
			b := []byte(s)
			if len(b) == 0 {
				return "a"
			}
			k := r.Intn(len(b))
			if b[k] < 0x80 && b[k] != 'a' {
				b[k] = 'a'
			} else if b[k] < 0x80 {
				b[k] = 'b'
			} else {
				return s + "a"
			}
			return string(b)
		}
		switchCase := func(s string) string {
			if u := strings.ToUpper(s); u != s {
				return u
			}
			if l := strings.ToLower(s); l != s {
				return l
			}
			return s + "X"
		}
		switch sc.How {
		case "pass-byte":
			pp = flip(pass)
		case "user-byte":
			pu = flip(user)
		case "pass-case":
			pp = switchCase(pass)
		case "user-case":
			pu = switchCase(user)
		case "pass-trailing-blank":
			pp = pass + " "
		case "swapped":
			pu, pp = pass, user
		case "pass-prefix":
			if len(pass) > 1 {
				pp = pass[:len(pass)-1]
			} else {
				pp = pass + pass
			}
		}
		if pu == user && pp == pass {
			pp = pass + "x"
		}
	}
	if strings.Contains(mech, "SCRAM") && sc.Equal && r.Chance(1, 6) {
		// a password as it is typed on one keyboard and stored from another: sequences that the
		// preparation step both RFC 4013 (SASLprep) and RFC 8265 (OpaqueString) demand maps to
		// one and the same string — non-ASCII spaces to U+0020, base letter plus combining mark
		// to the composed letter. The account holds the prepared form, the client is given the
		// raw one; they are the same password.
		raw := []string{"\u00a0", "\u3000", "\u2003", "a\u0308", "e\u0301", "o\u0302", "n\u0303"}
		prepared := []string{" ", " ", " ", "\u00e4", "\u00e9", "\u00f4", "\u00f1"}
		base := []rune(strings.Trim(pass, " "))
		if len(base) == 0 {
			base = []rune("x")
		}
		var rb, pb strings.Builder
		for k, c := range base {
			rb.WriteRune(c)
			pb.WriteRune(c)
			if k < len(base)-1 && r.Chance(1, 3) || k == 0 {
				j := r.Intn(len(raw))
				if k == 0 && j < 3 {
					j += 3 // no blank at the edge
				}
				rb.WriteString(raw[j])
				pb.WriteString(prepared[j])
			}
		}
		pp, stored.Pass = rb.String(), pb.String()
		sc.How = "equal-after-preparation"
	}
	sc.Client = ClientCfg{AuthType: mech, User: pu, Pass: pp, TLSPolicy: "none"}
	sc.Server.Auth = stored
	sc.Server.Auth.RefuseUnannounced = true // a conforming server speaks the mechanisms it announced, no others
	if !sc.Equal && r.Chance(1, 2) {
		// go-mail sends the SASL cancel line after a refused exchange (inherited from net/smtp);
		// servers refuse that stray line in different ways, none of which undoes the 535
		sc.Server.Rules = append(sc.Server.Rules, refsmtpd.Rule{Verb: "*", Nth: 1, Action: refsmtpd.Action{Code: sim.Pick(r, []int{501, 502, 503, 501}), Text: "syntax error"}})
	}
	sc.Server.Caps = []string{"8BITMIME", authCaps(allMechs...)}
	needTLS := strings.HasSuffix(mech, "PLUS") || mech == "PLAIN" || mech == "LOGIN" || mech == "CUSTOM-PLAIN" || mech == "CUSTOM-LOGIN" || (mech == "AUTODISCOVER" && r.Chance(1, 2))
	if needTLS || r.Chance(1, 6) {
		sc.Client.TLSPolicy = "mandatory"
		sc.Server.Caps = append(sc.Server.Caps, "STARTTLS")
		sc.Server.TLS = refsmtpd.TLSCfg{Cert: "valid", Version: sim.Pick(r, []string{"1.2", "1.3"})}
		if r.Chance(1, 4) && DialSeam {
			// implicit TLS through go-mail's own tls.Dialer: the connection is encrypted from the
			// first byte, there is no STARTTLS step
			sc.Client.TLSPolicy, sc.Client.DefaultDialer = "implicit", true
			sc.Server.ImplicitTLS = true
			sc.Server.Caps = sc.Server.Caps[:len(sc.Server.Caps)-1]
		}
	}
	if mech == "AUTODISCOVER" {
		// vary what the server offers so that discovery lands on different mechanisms
		var offer []string
		for _, m := range allMechs {
			if m != "XOAUTH2" && r.Chance(1, 2) {
				offer = append(offer, m)
			}
		}
		// at least one mechanism that discovery may pick on this kind of connection
		usable := false
		for _, m := range offer {
			if m == "SCRAM-SHA-256" || m == "SCRAM-SHA-1" || m == "CRAM-MD5" || ((sc.Client.TLSPolicy == "mandatory" || sc.Client.TLSPolicy == "implicit") && m != "XOAUTH2") {
				usable = true
			}
		}
		if !usable {
			offer = append(offer, sim.Pick(r, []string{"SCRAM-SHA-256", "SCRAM-SHA-1", "CRAM-MD5"}))
		}
		sc.Server.Caps[1] = authCaps(offer...)
	}
	if strings.HasPrefix(mech, "CUSTOM-SCRAM") {
		sc.Retry = "fail-then-retry"
	} else if strings.HasPrefix(mech, "CUSTOM-") {
		// one Auth value handed to the Client serves every connection the Client makes
		sc.Retry = "redial"
	} else if r.Chance(1, 5) {
		// the same Client connects, disconnects and connects again: the second connection
		// authenticates like the first (nothing of the first exchange or its TLS session is
		// carried over)
		sc.Retry = "redial"
	}
	if scram && sc.Retry != "" && r.Chance(1, 2) {
		sc.RandShort = true
	}
	if scram && sc.Retry != "" && r.Chance(1, 3) {
		// on the second connection the account has another iteration count (same salt)
		sc.Server.Auth.IterLater = sim.Pick(r, []int{1, 2, stored.Iter + 1, 10000})
	}
	if sc.Retry != "" && (sc.Client.TLSPolicy == "mandatory" || sc.Client.TLSPolicy == "implicit") && r.Chance(1, 2) {
		// the second connection resumes the TLS session of the first
		sc.Client.SessionCache = true
	}
	switch mech {
	case "CRAM-MD5", "SCRAM-SHA-1", "SCRAM-SHA-256", "PLAIN-NOENC", "LOGIN-NOENC":
		if sc.Retry == "" && sc.Client.TLSPolicy == "none" && !sc.RandShort && r.Chance(1, 3) {
			sc.Via = "smtp"
		}
	}
	// the outcome must not depend on whether the dialogue is being logged
	if r.Chance(1, 3) {
		sc.Client.Debug = true
		sc.Client.LogAuthData = r.Chance(1, 4)
	}
	return sc, true
}

func (p *c14) Exec(t *testing.T, scAny any) Outcome {
	sc := scAny.(*C14Scenario)
	var out Outcome
	var env *NetEnv
	var calls []*CallRec
	res := RunSim(t, sc.Sched, sim.Policy{Kind: "random"}, 0, time.Hour, func(k *sim.Kernel) (func(), func()) {
		env = &NetEnv{K: k, Srv: refsmtpd.New(k, sc.Server, TLSMat), Host: sc.Client.host()}
		if sc.Retry == "fail-then-retry" {
			// first connection: the server gives up in the middle of the exchange, whatever the
			// credentials: instead of its server-first or instead of its server-final message
			env.Srv.Cfg.Rules = append(env.Srv.Cfg.Rules, refsmtpd.Rule{Verb: "AUTHRESP", Nth: 2 + int(sc.Sched%2), Conn: 1, Action: refsmtpd.Action{Code: 454, Text: "temporary authentication failure"}})
		}
		return func() {
			if sc.RandShort {
				old := rand.Reader
				rand.Reader = &shortReader{r: old}
				defer func() { rand.Reader = old }()
			}
			if sc.Via == "smtp" {
				conn, _ := env.Dial(context.Background(), "tcp", "mx.sim.example:25")
				c2, err := smtp.NewClient(conn, sc.Client.host())
				if err != nil {
					out.Infra = "greeting: " + err.Error()
					return
				}
				if err := c2.Hello("client.sim.example"); err != nil {
					out.Infra = "hello: " + err.Error()
					return
				}
				var a smtp.Auth
				switch sc.Client.AuthType {
				case "CRAM-MD5":
					a = smtp.CRAMMD5Auth(sc.Client.User, sc.Client.Pass)
				case "SCRAM-SHA-1":
					a = smtp.ScramSHA1Auth(sc.Client.User, sc.Client.Pass)
				case "SCRAM-SHA-256":
					a = smtp.ScramSHA256Auth(sc.Client.User, sc.Client.Pass)
				case "PLAIN-NOENC":
					a = smtp.PlainAuth("", sc.Client.User, sc.Client.Pass, sc.Client.host(), true)
				default:
					a = smtp.LoginAuth(sc.Client.User, sc.Client.Pass, sc.Client.host(), true)
				}
				calls = append(calls, env.Call("smtp.Client.Auth", func() error { return c2.Auth(a) }))
				_ = c2.Close()
				return
			}
			c, err := BuildClient(sc.Client, env.Dial, &CaptureLogger{})
			if err != nil {
				out.Infra = err.Error()
				return
			}
			attempts := 1
			if sc.Retry != "" {
				attempts = 2
			}
			for a := 0; a < attempts; a++ {
				call := env.Call("DialWithContext", func() error { return c.DialWithContext(context.Background()) })
				calls = append(calls, call)
				if !call.Returned {
					return
				}
				if call.Err == nil && call.Panic == nil {
					env.Call("Close", c.Close)
				}
			}
		}, env.Freeze
	})
	out.SimNs, out.Steps, out.Digest = res.VirtualNs, res.Steps, res.Digest
	if out.Infra != "" {
		return out
	}
	if res.BubbleErr != "" {
		out.Infra = "bubble: " + res.BubbleErr
		return out
	}
	if len(calls) == 0 || !calls[len(calls)-1].Returned {
		out.stat("not-judged.call-did-not-return", 1)
		return out
	}
	mech := sc.Client.AuthType
	for _, c := range calls {
		if c.Panic != nil {
			out.violate("C14:panic:"+mech, "DialWithContext panicked: %v\n%s", c.Panic, c.PanicStack)
			return out
		}
	}
	final := calls[len(calls)-1]
	// what did the reference say?
	var reasons, used []string
	var nonces []string
	serverOK := false
	for _, e := range env.Srv.H.Events {
		if e.Kind != "auth" {
			continue
		}
		switch {
		case e.Text == "success":
			if e.Conn == len(env.Pipes) {
				serverOK = true
			}
			used = append(used, e.Verb)
		case strings.HasPrefix(e.Text, "fail: "):
			reasons = append(reasons, e.Verb+": "+strings.TrimPrefix(e.Text, "fail: "))
		case strings.HasPrefix(e.Text, "client-first ok nonce="):
			nonces = append(nonces, strings.TrimPrefix(e.Text, "client-first ok nonce="))
		}
	}
	clientOK := final.Err == nil
	if clientOK != serverOK {
		out.violate("C14:client-server-disagree:"+mech, "client reports success=%v, the reference server authenticated=%v (error %v)", clientOK, serverOK, final.Err)
	}
	if sc.Equal && !clientOK {
		cls := "unknown"
		if len(reasons) > 0 {
			cls = reasonClass(reasons[len(reasons)-1])
		} else if final.Err != nil {
			cls = "client-side:" + reasonClass(final.Err.Error())
		}
		out.violate("C14:rejected-valid:"+mech+":"+cls, "%s with the right credentials (user %q, password %q; salt %d bytes, %d iterations, TLS %s) failed: client error %v; reference server said %v",
			mech, sc.Client.User, sc.Client.Pass, len(sc.Server.Auth.Salt), sc.Server.Auth.Iter, sc.Server.TLS.Version, final.Err, reasons)
	}
	if !sc.Equal && clientOK {
		out.violate("C14:accepted-invalid:"+mech+":"+sc.How, "%s succeeded although the presented credentials (%q/%q) differ from the stored ones (%q/%q)", mech, sc.Client.User, sc.Client.Pass, sc.Server.Auth.User, sc.Server.Auth.Pass)
	}
	// nonce freshness
	seen := map[string]bool{}
	for _, n := range nonces {
		if seen[n] {
			out.violate("C14:nonce-reused:"+mech, "the client nonce %q was used in two SCRAM attempts of this run (attempts: %d)", n, len(nonces))
		}
		seen[n] = true
	}
	if sc.Retry != "" {
		out.stat("probe.retry-on-same-auth-value", 1)
		if len(nonces) < 2 {
			out.stat("probe.retry-without-second-client-first", 1)
		}
	}
	out.stat("outcome."+map[bool]string{true: "accepted", false: "refused"}[clientOK], 1)
	for _, u := range used {
		out.stat("mechanism-used."+u, 1)
	}
	out.Key = fmt.Sprintf("%s|%s|%s|%d|%d|%v|%s/%s", mech, sc.Server.TLS.Version, sc.How, len(sc.Server.Auth.Salt), sc.Server.Auth.Iter, clientOK, sc.Client.User, sc.Client.Pass)
	out.Nontrivial = true
	return out
}

func reasonClass(s string) string {
	for _, k := range []string{"channel-binding", "channel binding", "nonce", "proof", "saslname", "client-first", "client-final", "gs2", "UTF-8", "digest", "fields", "bad credentials", "unknown user", "normaliz", "base64", "timeout"} {
		if strings.Contains(s, k) {
			return strings.ReplaceAll(k, " ", "-")
		}
	}
	return "other"
}

func (p *c14) Shrink(scAny any) []any {
	sc := scAny.(*C14Scenario)
	var out []any
	shorten := func(s string) string {
		r := []rune(s)
		if len(r) > 1 {
			return string(r[:len(r)/2])
		}
		return s
	}
	if sc.Equal {
		if len([]rune(sc.Client.User)) > 1 {
			c := *sc
			c.Client.User = shorten(sc.Client.User)
			c.Server.Auth.User = c.Client.User
			out = append(out, &c)
			c2 := *sc
			r := []rune(sc.Client.User)
			c2.Client.User = string(r[len(r)/2:])
			c2.Server.Auth.User = c2.Client.User
			out = append(out, &c2)
		}
		if len([]rune(sc.Client.Pass)) > 1 {
			c := *sc
			c.Client.Pass = shorten(sc.Client.Pass)
			c.Server.Auth.Pass = c.Client.Pass
			out = append(out, &c)
			c2 := *sc
			r := []rune(sc.Client.Pass)
			c2.Client.Pass = string(r[len(r)/2:])
			c2.Server.Auth.Pass = c2.Client.Pass
			out = append(out, &c2)
		}
	}
	if sc.Server.Auth.Iter > 1 {
		c := *sc
		c.Server.Auth.Iter = 1
		out = append(out, &c)
	}
	if len(sc.Server.Auth.Salt) > 1 {
		c := *sc
		c.Server.Auth.Salt = sc.Server.Auth.Salt[:1]
		out = append(out, &c)
	}
	return out
}

func (p *c14) Info() PropInfo {
	return PropInfo{
		Rule: "seeded search, round-robin over 13 auth types (PLAIN, LOGIN, CRAM-MD5, XOAUTH2, SCRAM-SHA-1/-256, both PLUS variants over TLS 1.2 and 1.3, the NOENC types, AUTODISCOVER against drawn mechanism offers (the server answers 504 to a mechanism it did not announce), custom SCRAM Auth values retried on a second connection after a scripted failure): user names and passwords/tokens of 1..80 characters over letters, digits, the specials , = =2C =3D blank @ : ; \\ \" ' < > % + / * ! n= r= ,p=, non-ASCII letters stable under SASLprep and PRECIS, and (non-SCRAM) NUL-free control characters; salts of 0..64 random bytes, iteration counts 1..20000 (small favoured), printable nonce suffixes, random CRAM challenges; presented credentials equal to the stored ones in half of the runs, otherwise minimally different (one byte, case, trailing blank, swapped, prefix); empty user names / passwords for LOGIN, CRAM-MD5 and XOAUTH2; custom CRAM-MD5/LOGIN/PLAIN Auth values serving two connections; optional extension attributes in the server-first-message; crypto/rand.Reader delivering short reads in half of the SCRAM retry scenarios; LOGIN prompts in eight spellings (incl. repeated, empty, swapped); a fifth of the runs connect, disconnect and connect again on the same Client; a third of the runs with debug logging on (a quarter of those with auth-data logging); every run is non-trivial; distinct = distinct (type, TLS version, difference kind, salt length, iterations, outcome, credentials)",
		Assumptions: []string{"credentials are compared as byte strings by the reference; code points are restricted to those on which SASLprep and PRECIS OpaqueString are the identity, SCRAM credentials carry no control characters (both profiles prohibit them)",
			"PBKDF2 of the reference is crypto/pbkdf2 (standard library), independent of go-mail's internal/pbkdf2"},
		Real:        []string{"go-mail Client.auth, smtp.Client.Auth, all SASL mechanisms, internal/pbkdf2, channel-binding derivation", "crypto/tls on both ends"},
		Stubbed:     []string{"TCP", "SMTP server and SASL verifiers (reference implementations)", "clock", "crypto/rand (seeded, so a nonce that is not drawn afresh repeats)"},
		Exhaustive:  func(string) bool { return false },
		QuickBudget: 100 * time.Second, ThoroughBudget: 25 * time.Minute,
	}
}

// shortReader delivers nothing on every other Read (and no error): a legal io.Reader.
type shortReader struct {
	r io.Reader
	n int
}

func (s *shortReader) Read(p []byte) (int, error) {
	s.n++
	if s.n%2 == 1 {
		return 0, nil
	}
	return s.r.Read(p)
}
