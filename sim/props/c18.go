package props

import (
	"bytes"
	"fmt"
	"mime"
	"os"
	"path/filepath"
	"strings"
	"testing"
	"time"

	mail "github.com/wneessen/go-mail"

	"verif/sim/sim"
)

// C18 — Generated output obeys Internet-message line discipline, however producers chunk
// their writes.
//
// The schedule here is how a producer splits its output into Write calls. Workload: body and
// file contents with lengths in windows around multiples of 3, 57 and 76 and random lengths, with
// CRLF, bare LF and bare CR line breaks (also split across two writes), all encodings; chunkings
// {1 byte, primes, aligned/unaligned to 3/57/76, random}; header values with word lengths 0..300,
// multiple/leading/trailing blanks, text needing RFC 2047 in Q and B form. Oracle on the raw
// output: CRLF discipline in every header section and every QP/base64 body; encoded body lines
// <= 76; header lines <= 78 unless a single token; unfolded header fields decode to the value
// that was set; and the same content under two chunkings renders to the same bytes.

type C18Scenario struct {
	Msg     MsgSpec `json:"msg"`
	Chunks2 [][]int `json:"chunks2"` // alternative chunkings, one per producer
	HdrEnc  string  `json:"hdrEnc,omitempty"`
	Seed    uint64  `json:"seed"`
	// ReEnc: what is judged is a second render, made after the caller changed File.Enc of every
	// file (the first render has fixed the files' header fields)
	ReEnc bool `json:"reEnc,omitempty"`
	// PreFailAt > 0: before the judged render another message of the same shape is rendered in
	// this process into a destination that fails from this offset on (a send that broke off):
	// nothing of it may show in what is generated afterwards.
	PreFailAt int `json:"preFailAt,omitempty"`
	// ViaFile: the judged bytes are what WriteToFile leaves in a file that existed before and
	// held a longer message.
	ViaFile bool `json:"viaFile,omitempty"`
	// Relayed: the judged bytes are the render of a Msg that was parsed (EMLToMsgFromString) from
	// the stored first render after two relays put their (correctly folded) trace fields in
	// front of it — a received message that is generated again.
	Relayed bool `json:"relayed,omitempty"`
}

type c18 struct{}

func init() { register(&c18{}) }

func (*c18) ID() string                     { return "C18" }
func (*c18) Level() string                  { return "exploration" }
func (*c18) Decode(raw []byte) (any, error) { return decodeInto[C18Scenario](raw) }

func genHeaderValue(r *sim.Rand) string {
	var b strings.Builder
	n := 1 + r.Intn(8)
	if r.Chance(1, 8) {
		b.WriteString(strings.Repeat(" ", 1+r.Intn(3)))
	}
	for i := 0; i < n; i++ {
		if i > 0 {
			nb := 1 + r.Intn(3)*r.Intn(2)
			if r.Chance(1, 10) {
				nb = 4 + r.Intn(100) // a long run of blanks, possibly straddling the fold column
			}
			b.WriteString(strings.Repeat(" ", nb))
		}
		l := 0
		switch r.Intn(6) {
		case 0:
			l = r.Intn(4)
		case 1:
			l = 60 + r.Intn(40)
		case 2:
			l = 100 + r.Intn(200)
		default:
			l = 1 + r.Intn(20)
		}
		alpha := "abcdefghijklmnopqrstuvwxyzABCDEFGHIJKLMNOPQRSTUVWXYZ0123456789-_.,;:!?()"
		uni := []string{"ä", "ö", "ü", "ß", "é", "λ", "ж", "日", "本", "☺"}
		useUni := r.Chance(1, 3)
		for k := 0; k < l; k++ {
			if useUni && r.Chance(1, 4) {
				b.WriteString(sim.Pick(r, uni))
			} else {
				b.WriteByte(alpha[r.Intn(len(alpha))])
			}
		}
	}
	if r.Chance(1, 8) {
		b.WriteString(strings.Repeat(" ", 1+r.Intn(3)))
	}
	s := b.String()
	if r.Chance(1, 8) && len(s) > 0 {
		// a line break or control character inside the value (pure ASCII or not)
		at := r.Intn(len(s))
		for at > 0 && s[at]&0xc0 == 0x80 {
			at--
		}
		s = s[:at] + sim.Pick(r, []string{"\n", "\r\n", "\r", "\r\nX-Injected: yes", "\n\n", "\t", "\x00", "\x1b"}) + s[at:]
	}
	return s
}

func genLineContent(r *sim.Rand, n int) []byte {
	var b bytes.Buffer
	for b.Len() < n {
		l := lengthAround(r, 160)
		for k := 0; k < l && b.Len() < n; k++ {
			switch r.Intn(40) {
			case 0:
				b.WriteByte('=')
			case 1:
				b.WriteByte(' ')
			case 2:
				b.WriteByte('\t')
			case 3:
				b.WriteString("é")
			case 4:
				b.WriteByte('.')
			default:
				b.WriteByte(byte('a' + r.Intn(26)))
			}
		}
		switch r.Intn(8) {
		case 0:
			b.WriteString("\n")
		case 1:
			b.WriteString("\r")
		case 2:
			b.WriteString(" \r\n") // trailing blank before the break
		default:
			b.WriteString("\r\n")
		}
	}
	d := b.Bytes()
	if len(d) > n {
		d = d[:n]
	}
	return d
}

func (p *c18) Gen(seed uint64, i int, tier string) (any, bool) {
	n := 150000
	if tier == "thorough" {
		n = 1500000
	}
	if i >= n {
		return nil, false
	}
	r := sim.NewRand(sim.Derive(seed, 18, uint64(i)))
	tok := fmt.Sprintf("l%d", i)
	m := MsgSpec{Token: tok, From: "sender@origin.example", To: []string{"to@dest.example"}}
	m.Subject = genHeaderValue(r)
	if r.Chance(1, 2) {
		m.Headers = append(m.Headers, [2]string{"X-Custom-One", genHeaderValue(r)})
	}
	if r.Chance(1, 4) {
		m.Headers = append(m.Headers, [2]string{"Organization", genHeaderValue(r)})
	}
	if r.Chance(1, 3) {
		m.From = fmt.Sprintf("%q <sender@origin.example>", strings.TrimSpace(strings.NewReplacer(`"`, "", `\`, "").Replace(genHeaderValue(r))))
	}
	if r.Chance(1, 5) {
		// threading fields: several message ids in one field (each id is one word; the field as
		// a whole has to be folded like any other)
		n := 2 + r.Intn(6)
		var ids []string
		for k := 0; k < n; k++ {
			ids = append(ids, fmt.Sprintf("<%d.%d.thread-%s@lists.origin.example>", 1700000000+r.Intn(99999), r.Intn(1<<20), tok))
		}
		m.Headers = append(m.Headers, [2]string{sim.Pick(r, []string{"References", "In-Reply-To"}), strings.Join(ids, sim.Pick(r, []string{" ", "\x1f"}))})
	}
	if r.Chance(1, 6) {
		// a field with many short values (the list separator has to be budgeted for, too)
		n := 8 + r.Intn(30)
		var vs []string
		for k := 0; k < n; k++ {
			vs = append(vs, "kw"[:1+r.Intn(2)]+fmt.Sprint(r.Intn(1+r.Intn(99999))))
		}
		m.Headers = append(m.Headers, [2]string{"Keywords", strings.Join(vs, "\x1f")})
	}
	if r.Chance(1, 6) {
		// many recipients with very short addresses
		n := 6 + r.Intn(30)
		m.To = nil
		for k := 0; k < n; k++ {
			m.To = append(m.To, fmt.Sprintf("%c%d@d.ex", 'a'+byte(k%26), r.Intn(1+r.Intn(999))))
		}
	}
	if r.Chance(1, 6) {
		// a field the caller has folded itself (CRLF + blank), handed over as preformatted
		m.Preform = [][2]string{{"X-Pre-Signature", "v=1; a=sim-sha256; c=relaxed;\r\n h=from:to:subject:date;\r\n b=" + strings.Repeat("Ab9", 5+r.Intn(15))}}
	}
	m.Enc = sim.Pick(r, []string{"quoted-printable", "base64", "7bit", "8bit"})
	content := func(text bool) ContentSpec {
		ln := lengthAround(r, 700)
		if ln < 0 {
			ln = 0
		}
		var d []byte
		if text {
			d = genLineContent(r, ln)
		} else {
			d = r.Bytes(ln)
		}
		return ContentSpec{Data: d, Chunks: GenChunks(r)}
	}
	np := 1 + r.Intn(2)
	soleFile := r.Chance(1, 10)
	if soleFile {
		// no body part: a single file is then written at the top level, its Content-* fields
		// are part of the message's own header section
		np = 0
	}
	for k := 0; k < np; k++ {
		ps := PartSpec{Type: "text/plain", Content: content(true)}
		if k == 1 {
			ps.Type = "text/html"
		}
		if r.Chance(1, 2) {
			ps.Enc = sim.Pick(r, []string{"quoted-printable", "base64", "7bit"})
		}
		if r.Chance(1, 8) {
			ps.Desc = genHeaderValue(r)
		}
		m.Parts = append(m.Parts, ps)
	}
	nf := r.Intn(3)
	if soleFile {
		nf = 1 + r.Intn(2)*r.Intn(2)
	}
	for k := 0; k < nf; k++ {
		f := FileSpec{Name: fmt.Sprintf("file-%d.bin", k), Content: content(r.Chance(1, 3)), Source: sim.Pick(r, []string{"writer", "readseeker", "fs"})}
		if r.Chance(1, 6) || (soleFile && r.Chance(1, 2)) {
			f.Name = strings.TrimSpace(strings.NewReplacer("/", "", `"`, "").Replace(genHeaderValue(r))) + ".dat"
			if len(f.Name) > 150 {
				f.Name = f.Name[:150]
			}
		}
		if r.Chance(1, 8) {
			f.Desc = genHeaderValue(r)
		}
		if r.Chance(1, 2) {
			m.Attach = append(m.Attach, f)
		} else {
			m.Embeds = append(m.Embeds, f)
		}
	}
	levels := 0
	if len(m.Parts) >= 2 {
		levels++
	}
	if (len(m.Parts) > 0 && len(m.Embeds) > 0) || len(m.Embeds) > 1 {
		levels++
	}
	if ((len(m.Parts) > 0 || len(m.Embeds) > 0) && len(m.Attach) > 0) || len(m.Attach) > 1 {
		levels++
	}
	if levels == 1 && r.Chance(1, 2) {
		// a boundary chosen by the caller: 1..70 characters (RFC 2046), every length. Only for
		// shapes with a single multipart level: go-mail uses the caller's boundary for every
		// level, so nested containers would share it — a structural matter outside this
		// property (and outside what the structural reader of this oracle can cut apart)
		const bchars = "0123456789abcdefghijklmnopqrstuvwxyzABCDEFGHIJKLMNOPQRSTUVWXYZ'()+_,-./:=?"
		n := 1 + r.Intn(70)
		bd := make([]byte, n)
		for k := range bd {
			bd[k] = bchars[r.Intn(len(bchars))]
		}
		m.Boundary = string(bd)
	}
	sc := &C18Scenario{Msg: m, Seed: sim.Derive(seed, 18, uint64(i), 1)}
	sc.ReEnc = nf > 0 && r.Chance(1, 5)
	if r.Chance(1, 6) {
		sc.PreFailAt = 200 + r.Intn(3000)
	}
	sc.ViaFile = !sc.ReEnc && r.Chance(1, 8)
	sc.Relayed = !sc.ReEnc && !sc.ViaFile && i%9 == 4
	for k := 0; k < m.producerCount(); k++ {
		sc.Chunks2 = append(sc.Chunks2, GenChunks(r))
	}
	return sc, true
}

// ---- a small structural reader for the oracle ----

type mimeLeaf struct {
	path  string
	hdr   []byte // header section including the terminating empty line's CRLF
	body  []byte
	cte   string
	ctype string
}

func headerValue(hdr []byte, name string) string {
	lines := strings.Split(string(hdr), "\r\n")
	var val strings.Builder
	in := false
	for _, l := range lines {
		if in {
			if strings.HasPrefix(l, " ") || strings.HasPrefix(l, "\t") {
				val.WriteString(l)
				continue
			}
			break
		}
		if len(l) > len(name) && strings.EqualFold(l[:len(name)+1], name+":") {
			in = true
			val.WriteString(l[len(name)+1:])
		}
	}
	return strings.TrimSpace(val.String())
}

// splitEntity cuts an entity into header section and body.
func splitEntity(b []byte) (hdr, body []byte) {
	if bytes.HasPrefix(b, []byte("\r\n")) {
		return b[:2], b[2:]
	}
	i := bytes.Index(b, []byte("\r\n\r\n"))
	if i < 0 {
		return b, nil
	}
	return b[:i+4], b[i+4:]
}

func walkMIME(b []byte, path string, out *[]mimeLeaf, problems *[]string, depth int) {
	hdr, body := splitEntity(b)
	ct := headerValue(hdr, "Content-Type")
	mt, params, err := mime.ParseMediaType(ct)
	if ct != "" && err != nil && !strings.Contains(err.Error(), "duplicate") {
		mt = strings.ToLower(strings.TrimSpace(strings.SplitN(ct, ";", 2)[0]))
	}
	if strings.HasPrefix(mt, "multipart/") && params["boundary"] != "" && depth < 8 {
		*out = append(*out, mimeLeaf{path: path + "(multipart header)", hdr: hdr, cte: "multipart"})
		delim := []byte("\r\n--" + params["boundary"])
		// the body starts with "--boundary" directly after the header section's blank line
		rest := append([]byte("\r\n"), body...)
		idx := 0
		first := bytes.Index(rest, delim)
		if first < 0 {
			*problems = append(*problems, path+": boundary announced but never used")
			return
		}
		rest = rest[first+len(delim):]
		for {
			if bytes.HasPrefix(rest, []byte("--")) {
				return
			}
			if !bytes.HasPrefix(rest, []byte("\r\n")) {
				*problems = append(*problems, path+": boundary line not terminated by CRLF")
				return
			}
			rest = rest[2:]
			next := bytes.Index(rest, delim)
			if next < 0 {
				*problems = append(*problems, path+": missing closing boundary")
				return
			}
			walkMIME(rest[:next], fmt.Sprintf("%s/%d", path, idx), out, problems, depth+1)
			idx++
			rest = rest[next+len(delim):]
		}
	}
	*out = append(*out, mimeLeaf{path: path, hdr: hdr, body: body, cte: strings.ToLower(headerValue(hdr, "Content-Transfer-Encoding")), ctype: mt})
}

// lineProblems checks CRLF discipline and a maximum line length over a byte region.
func lineProblems(region []byte, maxLen int, headerRule bool) []string {
	var out []string
	for i := 0; i < len(region); i++ {
		if region[i] == '\n' && (i == 0 || region[i-1] != '\r') {
			out = append(out, "bare-lf")
			break
		}
		if region[i] == '\r' && (i+1 >= len(region) || region[i+1] != '\n') {
			out = append(out, "bare-cr")
			break
		}
	}
	for _, l := range bytes.Split(region, []byte("\r\n")) {
		if len(l) <= maxLen {
			continue
		}
		if headerRule {
			t := bytes.TrimSpace(l)
			if !bytes.Contains(t, []byte(" ")) {
				continue // a single token without blanks cannot be folded (a TAB inside a word is not a blank)
			}
		}
		out = append(out, fmt.Sprintf("line-too-long(%d>%d)", len(l), maxLen))
		break
	}
	return out
}

func normWS(s string) string { return strings.Join(strings.Fields(s), " ") }

func decodeHeader(raw string) (string, error) {
	// unfold
	raw = strings.ReplaceAll(raw, "\r\n", "")
	dec := new(mime.WordDecoder)
	return dec.DecodeHeader(raw)
}

// relayTrace: what two relays and a filter put in front of a message, folded as they should be.
const relayTrace = "Received: from mx1.origin.example (mx1.origin.example [192.0.2.10])\r\n" +
	"\tby inbound.dest.example (Postfix) with ESMTPS id 4F3A92C0D1E7\r\n" +
	"\tfor <recipient-with-a-long-name@dest.example>; Wed, 01 Jan 2025 10:00:03 +0000 (UTC)\r\n" +
	"Received: from client.origin.example (client.origin.example [198.51.100.77])\r\n" +
	"\tby mx1.origin.example (Postfix) with ESMTPSA id 9B1C4D2E3F5A6\r\n" +
	"\tfor <recipient-with-a-long-name@dest.example>; Wed, 01 Jan 2025 10:00:01 +0000 (UTC)\r\n" +
	"X-Spam-Report: score=0.1 required=5.0 tests=DKIM_SIGNED,DKIM_VALID,DKIM_VALID_AU,\r\n" +
	"\tHTML_MESSAGE,SPF_PASS,T_SCC_BODY_TEXT_LINE autolearn=ham autolearn_force=no\r\n" +
	"X-Spam-Report: second filter, score=0.0 required=6.3 tests=ALL_TRUSTED,BAYES_00,\r\n" +
	"\tKAM_DMARC_STATUS,URIBL_BLOCKED autolearn=unavailable version=4.0.0\r\n"

func (p *c18) render(t *testing.T, sc *C18Scenario, alt bool) ([]byte, error, any, string) {
	spec := sc.Msg.clone()
	if alt {
		for k := 0; k < spec.producerCount() && k < len(sc.Chunks2); k++ {
			spec.contentAt(k).Chunks = sc.Chunks2[k]
		}
	}
	var data []byte
	var err error
	pan, st := RunPlain(t, sc.Seed, func() {
		if sc.PreFailAt > 0 {
			if b0 := BuildMsg(spec, BuildOpts{}); b0.BuildErr == nil {
				_, _ = b0.Msg.WriteTo(&faultSink{Mode: "persistent-short", K: sc.PreFailAt})
			}
		}
		b := BuildMsg(spec, BuildOpts{})
		if b.BuildErr != nil {
			err = fmt.Errorf("build: %w", b.BuildErr)
			return
		}
		if sc.ViaFile {
			fn := filepath.Join(ScratchDir, "c18-spool.eml")
			_ = os.WriteFile(fn, bytes.Repeat([]byte("an older and much longer message that was stored under this name before\r\n"), 4000), 0o644)
			if err = b.Msg.WriteToFile(fn); err == nil {
				data, err = os.ReadFile(fn)
			}
			_ = os.Remove(fn)
			return
		}
		data, err = Render(b.Msg)
		if err == nil && sc.Relayed {
			stored := relayTrace + string(data)
			m2, perr := mail.EMLToMsgFromString(stored)
			if perr != nil {
				err = fmt.Errorf("build: the stored message does not parse: %w", perr)
				return
			}
			data, err = Render(m2)
			return
		}
		if err == nil && sc.ReEnc {
			// the caller changes the files' encodings after a first render and renders again:
			// whatever encoding each file is announced with then, its body must follow it
			rot := map[mail.Encoding]mail.Encoding{mail.EncodingB64: mail.NoEncoding, mail.NoEncoding: mail.EncodingB64, mail.EncodingUSASCII: mail.EncodingB64, mail.EncodingQP: mail.NoEncoding}
			for _, f := range append(b.Msg.GetAttachments(), b.Msg.GetEmbeds()...) {
				if n, ok := rot[f.Enc]; ok {
					f.Enc = n
				} else {
					f.Enc = mail.NoEncoding
				}
			}
			data, err = Render(b.Msg)
		}
	})
	return data, err, pan, st
}

func (p *c18) Exec(t *testing.T, scAny any) Outcome {
	sc := scAny.(*C18Scenario)
	var out Outcome
	a, errA, pan, st := p.render(t, sc, false)
	if pan != nil {
		out.violate("C18:panic", "render panicked: %v\n%s", pan, st)
		return out
	}
	if errA != nil {
		if strings.HasPrefix(errA.Error(), "build:") {
			out.stat("trivial.setter-refused-input", 1)
			return out
		}
		out.violate("C18:render-failed", "healthy render failed: %v", errA)
		return out
	}
	b, errB, pan, st := p.render(t, sc, true)
	if pan != nil || errB != nil {
		out.violate("C18:render-failed", "healthy render under the second chunking failed: %v %v %s", errB, pan, st)
		return out
	}
	out.Evals = 2
	out.Digest = hashKey(string(a))
	if !bytes.Equal(a, b) {
		at := firstDiff(a, b)
		out.violate("C18:chunking-dependent:"+encAt(a, at), "the same content rendered under two chunkings differs at byte %d: %q vs %q", at, ctx(a, at), ctx(b, at))
	}
	var leaves []mimeLeaf
	var problems []string
	walkMIME(a, "", &leaves, &problems, 0)
	for _, pr := range problems {
		if sc.Relayed {
			// what the parser keeps of a message's structure is not this property's subject
			out.stat("not-judged.structure-of-a-parsed-message", 1)
			continue
		}
		out.violate("C18:structure", "%s", pr)
	}
	for _, lf := range leaves {
		for _, pr := range lineProblems(lf.hdr, 78, true) {
			cls := pr
			if i := strings.Index(cls, "("); i > 0 {
				cls = cls[:i]
			}
			where := "part-header"
			if lf.path == "" || lf.path == "(multipart header)" {
				where = "top-header"
			}
			out.violate("C18:"+where+":"+cls, "header section of %q: %s; section: %q", lf.path, pr, clip(lf.hdr, 600))
		}
		switch lf.cte {
		case "quoted-printable", "base64":
			for _, pr := range lineProblems(lf.body, 76, false) {
				cls := pr
				if i := strings.Index(cls, "("); i > 0 {
					cls = cls[:i]
				}
				out.violate("C18:body:"+lf.cte+":"+cls, "%s body of part %q: %s", lf.cte, lf.path, pr)
			}
			out.stat("bodies."+lf.cte, 1)
		}
	}
	if sc.Relayed {
		// only the line discipline of what is generated is judged: which header fields and
		// values survive the parser is not this property's subject
		out.stat("probe.parsed-message-generated-again", 1)
		out.Key = fmt.Sprintf("relayed|%s|%d|%d", shapeSig(sc.Msg), len(a), len(leaves))
		out.Nontrivial = true
		return out
	}
	// header values unfold and decode to what was set
	top, _ := splitEntity(a)
	check := func(name, want string) {
		raw := headerValue(top, name)
		got, err := decodeHeader(raw)
		if err != nil {
			out.violate("C18:header-undecodable:"+name, "header %s does not decode: %v (raw %q)", name, err, raw)
			return
		}
		if normWS(got) != normWS(want) {
			out.violate("C18:header-value:"+name, "header %s unfolds to %q, but %q was set (raw %q)", name, normWS(got), normWS(want), raw)
			return
		}
		// runs of blanks inside the value are part of the value (the blanks at its edges are not:
		// they are indistinguishable from the separator after the colon and from trailing white
		// space); values with control characters are only compared modulo white space
		if !strings.ContainsFunc(want, func(c rune) bool { return c < 0x20 || c == 0x7f }) && strings.Trim(got, " ") != strings.Trim(want, " ") {
			out.violate("C18:header-blanks:"+name, "header %s unfolds to %q, but %q was set: runs of blanks changed (raw %q)", name, got, want, raw)
		}
	}
	check("Subject", sc.Msg.Subject)
	for _, h := range sc.Msg.Headers {
		check(h[0], strings.ReplaceAll(h[1], "\x1f", ", "))
	}
	for _, h := range sc.Msg.Preform {
		// written as given: it unfolds to what the caller's own folding unfolds to
		if got, want := normWS(strings.ReplaceAll(headerValue(top, h[0]), "\r\n", "")), normWS(strings.ReplaceAll(h[1], "\r\n", "")); got != want {
			out.violate("C18:header-value:preformatted", "preformatted header %s unfolds to %q, but %q was set", h[0], got, want)
		}
	}
	out.Key = fmt.Sprintf("%s|%d|%d", shapeSig(sc.Msg), len(a), len(leaves))
	out.Nontrivial = true
	return out
}

func clip(b []byte, n int) []byte {
	if len(b) > n {
		return b[:n]
	}
	return b
}

// encAt names the transfer encoding of the part that contains offset at (best effort).
func encAt(b []byte, at int) string {
	i := bytes.LastIndex(b[:min(at, len(b))], []byte("Content-Transfer-Encoding: "))
	if i < 0 {
		return "unknown"
	}
	rest := b[i+len("Content-Transfer-Encoding: "):]
	e := bytes.IndexByte(rest, '\r')
	if e < 0 {
		return "unknown"
	}
	return string(rest[:e])
}

func (p *c18) Shrink(scAny any) []any {
	sc := scAny.(*C18Scenario)
	var out []any
	m := sc.Msg
	try := func(f func(c *C18Scenario)) {
		c := *sc
		c.Msg = m.clone()
		c.Chunks2 = append([][]int(nil), sc.Chunks2...)
		f(&c)
		out = append(out, &c)
	}
	if len(m.Attach) > 0 {
		try(func(c *C18Scenario) {
			c.Msg.Attach = c.Msg.Attach[:len(c.Msg.Attach)-1]
			c.Chunks2 = c.Chunks2[:c.Msg.producerCount()]
		})
	}
	if len(m.Embeds) > 0 && len(m.Attach) == 0 {
		try(func(c *C18Scenario) {
			c.Msg.Embeds = c.Msg.Embeds[:len(c.Msg.Embeds)-1]
			c.Chunks2 = c.Chunks2[:c.Msg.producerCount()]
		})
	}
	if len(m.Headers) > 0 {
		try(func(c *C18Scenario) { c.Msg.Headers = nil })
	}
	if len(m.Subject) > 1 {
		try(func(c *C18Scenario) { c.Msg.Subject = "s" })
	}
	for k := 0; k < m.producerCount(); k++ {
		if d := m.contentAt(k).Data; len(d) > 8 {
			kk := k
			try(func(c *C18Scenario) { cs := c.Msg.contentAt(kk); cs.Data = cs.Data[:len(cs.Data)/2] })
		}
	}
	return out
}

func (p *c18) Info() PropInfo {
	return PropInfo{
		Rule: "seeded search: message with generated Subject/custom header/Organization/display name values (word lengths 0..300, runs of blanks, leading/trailing blanks, non-ASCII needing RFC 2047), 1..2 body parts and 0..2 files with content lengths around multiples of 3/57/76 (+-3) and random, CRLF / bare LF / bare CR / trailing-blank line ends, all transfer encodings, on single-level shapes a caller-chosen boundary of 1..70 characters, a sixth of the renders after a broken-off render of the same shape, an eighth through WriteToFile over an older and longer file, file sources writer/read-seeker/fs.FS; each message is rendered under two independently drawn chunkings per producer {single write, 1 byte, 3, 57, 76, primes and off-by-one sizes, random mixes}; every run is non-trivial; distinct = distinct (shape signature, output length, number of MIME leaves); a ninth of the scenarios judge the render of a Msg parsed back (EMLToMsgFromString) from the stored first render with two relays' folded trace fields and repeated filter fields in front of it (line discipline only)",
		Assumptions: []string{"8bit and 7bit bodies are passed through by contract and not judged for line length (7bit parts are QP-encoded by go-mail and then carry that discipline only if labelled so)",
			"a header line longer than 78 is accepted when, trimmed, it contains no blank (single token)",
			"header values are compared after RFC 2047 decoding with mime.WordDecoder and whitespace normalisation"},
		Real:        []string{"go-mail msgWriter (header folding, body writers), base64LineBreaker", "mime/quotedprintable, encoding/base64, mime/multipart"},
		Stubbed:     []string{"content producers (chunked writers, readers, fs.FS)", "clock and crypto/rand (virtual/seeded, boundaries only)"},
		Exhaustive:  func(string) bool { return false },
		QuickBudget: 100 * time.Second, ThoroughBudget: 25 * time.Minute,
	}
}
