package props

import (
	"context"
	"fmt"
	netmail "net/mail"
	"strings"
	"testing"
	"time"

	mail "github.com/wneessen/go-mail"

	"verif/sim/refsmtpd"
	"verif/sim/sim"
)

// C05 — Envelope addresses and command lines cannot be smuggled.
//
// The statement quantifies over inputs, but its observable is the wire dialogue, which only the
// simulated peer can see. Workload: generated addresses (dot-atom and quoted-string local parts
// over the specials the property names, UTF-8 local parts and domains, address literals, display
// names needing quoting) through every address setter; HELO names (blanks, specials, UTF-8,
// CR/LF); user names and passwords; DSN option combinations; a few reply scripts. Oracle in the
// reference server: every line outside DATA is one well-formed command with no parameter the
// client configuration did not ask for, and each reverse-/forward-path, parsed with the RFC 5321
// grammar and unquoted, is exactly the mailbox the caller set — or that command was never sent
// and the call reported an error.

// AddrSpec is an address by meaning.
type AddrSpec struct {
	Name   string `json:"name,omitempty"`
	Local  string `json:"local"`
	Domain string `json:"domain"`
}

func (a AddrSpec) mailbox() string { return a.Local + "@" + a.Domain }

// Text renders the address the way a careful caller would write it (RFC 5322 quoting).
func (a AddrSpec) Text() string {
	return (&netmail.Address{Name: a.Name, Address: a.mailbox()}).String()
}

type C05Scenario struct {
	// Via: how the addresses reach the Msg: "" (From/EnvelopeFrom/AddTo/AddCc/AddBcc with the
	// full address text), "format" (the *Format variants: display name and addr-spec apart),
	// "reuse" (plain setters on a Msg that carried another mail and was Reset())
	Via     string          `json:"via,omitempty"`
	From    *AddrSpec       `json:"from,omitempty"`
	EnvFrom *AddrSpec       `json:"envFrom,omitempty"`
	To      []AddrSpec      `json:"to,omitempty"`
	Cc      []AddrSpec      `json:"cc,omitempty"`
	Bcc     []AddrSpec      `json:"bcc,omitempty"`
	Client  ClientCfg       `json:"client"`
	Server  refsmtpd.Config `json:"server"`
	Sched   uint64          `json:"sched"`
	// Direct, if set, is the second workload (smtp package used directly, c05_direct.go).
	Direct *C05Direct `json:"direct,omitempty"`
}

type c05 struct{}

func init() { register(&c05{}) }

func (*c05) ID() string                     { return "C05" }
func (*c05) Level() string                  { return "exploration" }
func (*c05) Decode(raw []byte) (any, error) { return decodeInto[C05Scenario](raw) }

func genLocal(r *sim.Rand) string {
	plain := "abcdefghijklmnopqrstuvwxyz0123456789"
	atext := "!#$%&'*+-/=?^_`{|}~"
	special := []string{" ", "<", ">", "@", ",", ";", ":", "\\", "\"", "(", ")", "[", "]", "..", "\t"}
	// (incl. compatibility characters that a normalisation would turn into ASCII specials)
	uni := []string{"ü", "é", "ж", "日本", "ñ", "ｕｓｅｒ", "＠", "＞", "．", "①", "\u3000", "․", "ﬁ", "e\u0301"}
	var b strings.Builder
	n := 1 + r.Intn(10)
	kind := r.Intn(6)
	for k := 0; k < n; k++ {
		switch {
		case kind == 1 && r.Chance(1, 3):
			b.WriteByte(atext[r.Intn(len(atext))])
		case kind == 2 && r.Chance(1, 3):
			b.WriteString(sim.Pick(r, special))
		case kind == 3 && r.Chance(1, 3):
			b.WriteString(sim.Pick(r, uni))
		case kind == 4 && r.Chance(1, 4):
			b.WriteByte('.')
		default:
			b.WriteByte(plain[r.Intn(len(plain))])
		}
	}
	s := b.String()
	if kind == 5 {
		s = sim.Pick(r, []string{"a b", "a@b", "<x>", "x> SIZE=1", "x@y> BODY=8BITMIME <z", ".lead", "trail.", "a\"b", "a\\b", "rcpt,other", "a;b", "a:b", " lead", "trail ", "user+tag", "\"", "\\", "sales%emea", "100%", "%s", "a%d%v",
			// local parts that need quoting AND hold non-ASCII characters
			"jürgen müller", "š b", "名前 太郎", "ü;ö", "é(x)",
			// fullwidth look-alikes of the characters that end a path
			"victim＠example.net＞\u3000NOTIFY=NEVER", "ｕｓｅｒ", "a．b", "x＞＜y"})
	}
	return s
}

func genDomain(r *sim.Rand) string {
	return sim.Pick(r, []string{"dest.example", "sub.dest-x.example", "a.b.c.example", "bücher.example", "例え.example", "[127.0.0.1]", "x.example", "dest.example"})
}

func genAddr(r *sim.Rand) AddrSpec {
	a := AddrSpec{Local: genLocal(r), Domain: genDomain(r)}
	if r.Chance(1, 2) {
		a.Name = sim.Pick(r, []string{"Plain Name", "Last, First", "Quote \"d\" Name", "Ünï Cödé", "名前", "semi;colon", "<angle>", "a@b"})
	}
	return a
}

func (p *c05) Gen(seed uint64, i int, tier string) (any, bool) {
	n := 150000
	if tier == "thorough" {
		n = 1000000
	}
	if i >= n {
		return nil, false
	}
	r := sim.NewRand(sim.Derive(seed, 5, uint64(i)))
	if i%5 == 4 {
		return &C05Scenario{Direct: genDirect(r, i, seed)}, true
	}
	sc := &C05Scenario{Sched: sim.Derive(seed, 5, uint64(i), 1)}
	f := genAddr(r)
	sc.From = &f
	if r.Chance(1, 3) {
		e := genAddr(r)
		sc.EnvFrom = &e
	}
	for k := 0; k < 1+r.Intn(3); k++ {
		sc.To = append(sc.To, genAddr(r))
	}
	for k := 0; k < r.Intn(2); k++ {
		sc.Cc = append(sc.Cc, genAddr(r))
	}
	for k := 0; k < r.Intn(2); k++ {
		sc.Bcc = append(sc.Bcc, genAddr(r))
	}
	sc.Via = sim.Pick(r, []string{"", "", "format", "reuse"})
	sc.Client = ClientCfg{TLSPolicy: "none"}
	caps := []string{"8BITMIME", "SMTPUTF8"}
	if r.Chance(1, 2) {
		caps = append(caps, "DSN")
	}
	if r.Chance(1, 2) {
		caps = append(caps, "ENHANCEDSTATUSCODES")
	}
	if r.Chance(1, 3) {
		sc.Client.DSN = true
		if r.Chance(1, 2) {
			// (values as they come out of a configuration file: whatever the option accepts must
			// be a RET value on the wire, whatever it refuses never gets there)
			sc.Client.DSNRet = sim.Pick(r, []string{"FULL", "HDRS", "FULL", "HDRS", " FULL", "FULL ", "HDRS\r\n", "\r\nFULL", "\tHDRS", "FULL\r\nRSET", "full", "HDRS BODY=8BITMIME", ""})
		}
		if r.Chance(1, 2) {
			// (NEVER together with another value must be refused when the option is given,
			// wherever in the list it stands)
			sc.Client.DSNNotify = sim.Pick(r, [][]string{{"SUCCESS"}, {"FAILURE", "DELAY"}, {"NEVER"}, {"SUCCESS", "FAILURE", "DELAY"}, {"SUCCESS", "NEVER"}, {"NEVER", "DELAY"}, {"FAILURE", "DELAY", "NEVER"}, {"SUCCESS "}, {"NEVER\r\n"}, {"FAILURE", " DELAY"}, {"SUCCESS ORCPT=rfc822;x@y.example"}, {"success"}})
		}
	}
	if r.Chance(1, 3) {
		sc.Client.HELO = sim.Pick(r, []string{"client.example", "my host", "host extra arg", "hóst.example", "[192.0.2.1]", "a_b.example", "host\r\nMAIL FROM:<x@y>", "host\nNOOP", " lead", "trail ", "tab\there", "-dash.example"})
	}
	if r.Chance(1, 3) {
		sc.Client.AuthType = sim.Pick(r, []string{"PLAIN-NOENC", "LOGIN-NOENC", "CRAM-MD5", "SCRAM-SHA-256", "XOAUTH2"})
		sc.Client.User = sim.Pick(r, []string{"user", "us er", "user\r\nRSET", "u=,ser", "üser", "user name with blanks"})
		sc.Client.Pass = sim.Pick(r, []string{"pass", "pa ss", "pass\r\nQUIT", "p=,ss", "päss"})
		sc.Server.Auth = refsmtpd.AuthCfg{User: sc.Client.User, Pass: sc.Client.Pass, Salt: []byte("s"), Iter: 2}
		caps = append(caps, authCaps(allMechs...))
	}
	sc.Server.Caps = caps
	if r.Chance(1, 5) {
		sc.Server.Rules = []refsmtpd.Rule{{Verb: sim.Pick(r, []string{"RCPT", "MAIL"}), Nth: 1, Action: refsmtpd.Action{Code: 550, Text: "no"}}}
	}
	return sc, true
}

func (p *c05) Exec(t *testing.T, scAny any) Outcome {
	sc := scAny.(*C05Scenario)
	if sc.Direct != nil {
		return p.execDirect(t, sc.Direct)
	}
	var out Outcome
	var env *NetEnv
	var call *CallRec
	var setterErr []string
	accepted := map[string]bool{} // which roles made it into the message
	var wantSender *AddrSpec
	var wantRcpts []AddrSpec
	res := RunSim(t, sc.Sched, sim.Policy{Kind: "random"}, 0, time.Hour, func(k *sim.Kernel) (func(), func()) {
		env = &NetEnv{K: k, Srv: refsmtpd.New(k, sc.Server, TLSMat)}
		return func() {
			c, err := BuildClient(sc.Client, env.Dial, nil)
			if err != nil {
				setterErr = append(setterErr, "client: "+err.Error())
				return
			}
			m := mail.NewMsg()
			if sc.Via == "reuse" {
				_ = m.EnvelopeFrom("old-bounce@old.example")
				_ = m.From("old-from@old.example")
				_ = m.To("old-to@old.example")
				_ = m.Cc("old-cc@old.example")
				_ = m.Bcc("old-bcc@old.example")
				m.Subject("the earlier mail")
				m.SetBodyString(mail.TypeTextPlain, "earlier\r\n")
				_, _ = Render(m)
				m.Reset()
			}
			m.Subject("c05")
			m.SetBodyString(mail.TypeTextPlain, "body\r\n")
			formatOf := map[string]func(string, string) error{"from": m.FromFormat, "envfrom": m.EnvelopeFromFormat, "to": m.AddToFormat, "cc": m.AddCcFormat, "bcc": m.AddBccFormat}
			try := func(role string, f func(string) error, a AddrSpec) bool {
				if sc.Via == "format" {
					f = func(string) error { return formatOf[role](a.Name, bare(a)) }
				}
				if err := f(a.Text()); err != nil {
					setterErr = append(setterErr, role+": "+err.Error())
					return false
				}
				accepted[role] = true
				return true
			}
			if sc.From != nil && try("from", m.From, *sc.From) {
				wantSender = sc.From
			}
			if sc.EnvFrom != nil && try("envfrom", m.EnvelopeFrom, *sc.EnvFrom) {
				wantSender = sc.EnvFrom
			}
			for _, a := range sc.To {
				if try("to", m.AddTo, a) {
					wantRcpts = append(wantRcpts, a)
				}
			}
			for _, a := range sc.Cc {
				if try("cc", m.AddCc, a) {
					wantRcpts = append(wantRcpts, a)
				}
			}
			for _, a := range sc.Bcc {
				if try("bcc", m.AddBcc, a) {
					wantRcpts = append(wantRcpts, a)
				}
			}
			call = env.Call("DialAndSend", func() error { return c.DialAndSendWithContext(context.Background(), m) })
		}, env.Freeze
	})
	out.SimNs, out.Steps, out.Digest = res.VirtualNs, res.Steps, res.Digest
	if res.BubbleErr != "" {
		out.Infra = "bubble: " + res.BubbleErr
		return out
	}
	out.stat("setter-refusals", len(setterErr))
	if call == nil {
		out.stat("trivial.client-not-constructed", 1)
		return out
	}
	if call.Panic != nil {
		out.violate("C05:panic", "DialAndSend panicked: %v\n%s", call.Panic, call.PanicStack)
		return out
	}
	if !call.Returned {
		out.stat("not-judged.call-did-not-return", 1)
		return out
	}
	h := env.Srv.H
	// 1. line discipline and grammar of every command line
	for _, e := range h.Events {
		if e.Kind != "obs" {
			continue
		}
		switch {
		case strings.HasPrefix(e.Obs, "syntax:"), e.Obs == "bare-lf", e.Obs == "bare-cr", e.Obs == "line-too-long", e.Obs == "partial-line-at-eof":
			verb := strings.ToUpper(strings.SplitN(e.Line, " ", 2)[0])
			if len(verb) > 8 || verb == "" {
				verb = "?"
			}
			if (verb == "EHLO" || verb == "HELO") && strings.HasPrefix(e.Obs, "syntax:") {
				// which characters a host name label may hold is not this property's subject;
				// blanks (extra arguments) and CR/LF are
				rest := strings.TrimPrefix(strings.TrimPrefix(e.Line, e.Line[:4]), " ")
				if !strings.ContainsAny(rest, " \t") && len(strings.Fields(e.Line)) == 2 {
					continue
				}
			}
			cls := e.Obs
			if strings.HasPrefix(cls, "syntax:") {
				cls = "syntax"
			}
			out.violate("C05:malformed-line:"+verb+":"+cls, "the server received the line %q: %s (HELO name %q, sender %v, recipients %v)", e.Line, e.Obs, sc.Client.HELO, wantSender, wantRcpts)
		case strings.HasPrefix(e.Obs, "unknown-mail-param"), strings.HasPrefix(e.Obs, "unknown-rcpt-param"), strings.HasPrefix(e.Obs, "duplicate-param"):
			out.violate("C05:smuggled-parameter", "%s on line %q", e.Obs, e.Line)
		case e.Obs == "auth-cancel-after-final-reply":
		}
	}
	// 2. parameters only as configured
	// WithDSN() alone asks for RET=FULL and NOTIFY=FAILURE,SUCCESS (documented defaults)
	wantRet, wantNotify := "", ""
	if sc.Client.DSN {
		wantRet, wantNotify = "FULL", "FAILURE,SUCCESS"
	}
	if sc.Client.DSNRet != "" {
		wantRet = sc.Client.DSNRet
	}
	if len(sc.Client.DSNNotify) > 0 {
		wantNotify = strings.Join(sc.Client.DSNNotify, ",")
	}
	keyClass := func(k string) string {
		switch k {
		case "BODY", "SIZE", "SMTPUTF8", "RET", "ENVID", "NOTIFY", "ORCPT", "AUTH":
			return k
		}
		return "junk"
	}
	var mailCmds, rcptCmds []refsmtpd.Event
	for _, e := range h.Events {
		if e.Kind != "cmd" || e.Cmd == nil {
			continue
		}
		switch e.Verb {
		case "MAIL":
			mailCmds = append(mailCmds, e)
			for _, pr := range e.Cmd.Params {
				ok := (pr.Key == "BODY" && strings.EqualFold(pr.Val, "8BITMIME")) || (pr.Key == "SMTPUTF8" && !pr.Has) || (pr.Key == "RET" && pr.Val == wantRet && wantRet != "")
				if !ok {
					out.violate("C05:unrequested-parameter:MAIL:"+keyClass(pr.Key), "MAIL carries the parameter %s=%s, which the client configuration did not ask for: %q", pr.Key, pr.Val, e.Line)
				}
			}
		case "RCPT":
			rcptCmds = append(rcptCmds, e)
			for _, pr := range e.Cmd.Params {
				ok := pr.Key == "NOTIFY" && pr.Val == wantNotify && wantNotify != ""
				if !ok {
					out.violate("C05:unrequested-parameter:RCPT:"+keyClass(pr.Key), "RCPT carries the parameter %s=%s, which the client configuration did not ask for: %q", pr.Key, pr.Val, e.Line)
				}
			}
		case "EHLO", "HELO":
			want := sc.Client.HELO
			if want != "" && e.Cmd.Arg != want {
				out.violate("C05:helo-argument-differs", "HELO name %q was configured, the server received %q", want, e.Line)
			}
		}
	}
	// 3. the paths denote exactly the mailboxes that were set
	same := func(pth *refsmtpd.Path, a AddrSpec) bool {
		return pth != nil && !pth.Null && pth.Local == a.Local && strings.EqualFold(pth.Domain, a.Domain)
	}
	kindOf := func(a AddrSpec) string {
		for i := 0; i < len(a.Local); i++ {
			c := a.Local[i]
			if c >= 0x80 {
				return "utf8-local"
			}
			if !(c >= 'a' && c <= 'z' || c >= 'A' && c <= 'Z' || c >= '0' && c <= '9' || strings.IndexByte("!#$%&'*+-/=?^_`{|}~.", c) >= 0) {
				return "local-needs-quoting"
			}
		}
		if strings.HasPrefix(a.Local, ".") || strings.HasSuffix(a.Local, ".") || strings.Contains(a.Local, "..") {
			return "local-needs-quoting"
		}
		return "dot-atom"
	}
	if len(mailCmds) > 0 && wantSender != nil {
		if !same(mailCmds[0].Cmd.Path, *wantSender) {
			out.violate("C05:reverse-path-differs:"+kindOf(*wantSender), "the caller set the sender mailbox %q (written %s); the server received %q, which the RFC 5321 grammar reads as local %q domain %q (syntax: %v)",
				wantSender.mailbox(), wantSender.Text(), mailCmds[0].Line, mailCmds[0].Cmd.Path.Local, mailCmds[0].Cmd.Path.Domain, mailCmds[0].Cmd.Syntax)
		}
	}
	if len(mailCmds) > 0 && wantSender == nil {
		out.violate("C05:mail-without-sender", "MAIL was sent although no sender address was accepted: %q", mailCmds[0].Line)
	}
	// the RCPT lines must be, in order, a subsequence of the recipients that were set: a recipient
	// may be missing (refused locally, with an error), never altered or invented
	j, skipped := 0, 0
	for _, rc := range rcptCmds {
		k := j
		for k < len(wantRcpts) && !same(rc.Cmd.Path, wantRcpts[k]) {
			k++
		}
		if k >= len(wantRcpts) {
			nearest := AddrSpec{}
			if j < len(wantRcpts) {
				nearest = wantRcpts[j]
			}
			out.violate("C05:forward-path-differs:"+kindOf(nearest), "the server received %q, which the RFC 5321 grammar reads as local %q domain %q (syntax: %v); that is none of the remaining recipient mailboxes the caller set (next expected: %q written %s; all: %v)",
				rc.Line, rc.Cmd.Path.Local, rc.Cmd.Path.Domain, rc.Cmd.Syntax, nearest.mailbox(), nearest.Text(), wantRcpts)
			continue
		}
		skipped += k - j
		j = k + 1
	}
	skipped += len(wantRcpts) - j
	if len(rcptCmds) == 0 {
		skipped = 0 // the message did not get as far as RCPT; judged below
	}
	if skipped > 0 {
		out.stat("probe.recipient-refused-locally", skipped)
		if call.Err == nil {
			out.violate("C05:silently-dropped-address", "DialAndSend returned nil, but %d of the %d recipients never appeared in a RCPT command", skipped, len(wantRcpts))
		}
	}
	// a command that is missing must come with an error
	if call.Err == nil && len(mailCmds) == 0 {
		out.violate("C05:silently-dropped-address", "DialAndSend returned nil, but the server saw no MAIL command")
	}
	kinds := map[string]bool{}
	if wantSender != nil {
		kinds[kindOf(*wantSender)] = true
	}
	for _, a := range wantRcpts {
		kinds[kindOf(a)] = true
	}
	for k := range kinds {
		out.stat("probe.address-kind."+k, 1)
	}
	if len(mailCmds) > 0 {
		out.stat("probe.reached-MAIL", 1)
	}
	var ks []string
	for _, k := range []string{"dot-atom", "local-needs-quoting", "utf8-local"} {
		if kinds[k] {
			ks = append(ks, k)
		}
	}
	out.Key = fmt.Sprintf("%v|helo=%q|auth=%s|dsn=%v/%s/%v|%d|%v|%v", ks, sc.Client.HELO, sc.Client.AuthType, sc.Client.DSN, sc.Client.DSNRet, sc.Client.DSNNotify, len(wantRcpts), wantSender, wantRcpts)
	out.Nontrivial = len(h.Events) > 2
	return out
}

func (p *c05) Shrink(scAny any) []any {
	sc := scAny.(*C05Scenario)
	var out []any
	if sc.Direct != nil {
		for i := range sc.Direct.Calls {
			d := *sc.Direct
			d.Calls = append(append([]C05Call(nil), sc.Direct.Calls[:i]...), sc.Direct.Calls[i+1:]...)
			out = append(out, &C05Scenario{Direct: &d})
		}
		return out
	}
	cp := func() *C05Scenario {
		c := *sc
		c.To = append([]AddrSpec(nil), sc.To...)
		c.Cc = append([]AddrSpec(nil), sc.Cc...)
		c.Bcc = append([]AddrSpec(nil), sc.Bcc...)
		return &c
	}
	if len(sc.Cc) > 0 {
		c := cp()
		c.Cc = nil
		out = append(out, c)
	}
	if len(sc.Bcc) > 0 {
		c := cp()
		c.Bcc = nil
		out = append(out, c)
	}
	if len(sc.To) > 1 {
		for i := range sc.To {
			c := cp()
			c.To = append(c.To[:i], c.To[i+1:]...)
			out = append(out, c)
		}
	}
	if sc.EnvFrom != nil {
		c := cp()
		c.EnvFrom = nil
		out = append(out, c)
	}
	if sc.Client.HELO != "" {
		c := cp()
		c.Client.HELO = ""
		out = append(out, c)
	}
	if sc.Client.AuthType != "" {
		c := cp()
		c.Client.AuthType = ""
		out = append(out, c)
	}
	if sc.Client.DSN {
		c := cp()
		c.Client.DSN, c.Client.DSNRet, c.Client.DSNNotify = false, "", nil
		out = append(out, c)
	}
	if len(sc.Server.Rules) > 0 {
		c := cp()
		c.Server.Rules = nil
		out = append(out, c)
	}
	simple := AddrSpec{Local: "plain", Domain: "dest.example"}
	if sc.From != nil && *sc.From != simple {
		c := cp()
		s := simple
		c.From = &s
		out = append(out, c)
	}
	for i := range sc.To {
		if sc.To[i] != simple {
			c := cp()
			c.To[i] = simple
			out = append(out, c)
		}
		if sc.To[i].Name != "" {
			c := cp()
			c.To[i].Name = ""
			out = append(out, c)
		}
	}
	return out
}

func (p *c05) Info() PropInfo {
	return PropInfo{
		Rule: "seeded search: addresses reach the Msg through the plain setters, the *Format setters, or the plain setters on a Msg that carried another mail and was Reset(); sender, optional envelope sender, 1..3 To, 0..1 Cc, 0..1 Bcc addresses generated by meaning (local part: letters/digits, atext specials, the specials blank < > @ , ; : \\ \" ( ) [ ] .. TAB, UTF-8 incl. fullwidth and other compatibility characters and combining marks, leading/trailing/double dots, hand-picked smuggling attempts such as 'x> SIZE=1'; domain: plain, IDN, address literal; optional display names needing quoting or RFC 2047) and written out with correct RFC 5322 quoting through From/EnvelopeFrom/AddTo/AddCc/AddBcc; HELO names incl. blanks, CR/LF, UTF-8; credentials with blanks, CR/LF, = and ,; DSN option combinations incl. values with surrounding blanks, CR/LF, TAB, other case or a smuggled parameter; occasionally a refused MAIL/RCPT; every fifth run drives the smtp package directly: 3..10 calls of Hello/Mail/Rcpt/Verify/Noop/Reset/Data with arguments that carry unique markers, some with CR/LF, blanks or parameter injections — a refused argument's marker must never reach the wire, in that call or any later one; non-trivial = the dialogue got past the greeting; distinct = distinct (address kinds, HELO name, auth type, DSN options, mailboxes)",
		Assumptions: []string{"'the mailbox the caller put on the message' is the (local part, domain) pair the address was generated from; its textual form is produced by net/mail's Address.String, independent of go-mail",
			"an address the setter refuses is simply not part of the message (counted, not judged)",
			"SMTPUTF8 and 8BITMIME are always advertised here, so non-ASCII paths are legal on the wire (advertising is C04's subject)"},
		Real:        []string{"go-mail Msg address setters, GetSender/GetRecipients, Client dial/auth/send, smtp.Client command formatting and validateLine"},
		Stubbed:     []string{"TCP", "SMTP server (strict RFC 5321 line and path parser)", "clock", "crypto/rand"},
		Exhaustive:  func(string) bool { return false },
		QuickBudget: 100 * time.Second, ThoroughBudget: 25 * time.Minute,
	}
}
