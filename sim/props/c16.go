package props

import (
	"bytes"
	"context"
	"encoding/base64"
	"encoding/hex"
	"encoding/json"
	"fmt"
	"strings"
	"testing"
	"time"

	mail "github.com/wneessen/go-mail"
	mlog "github.com/wneessen/go-mail/log"
	"github.com/wneessen/go-mail/smtp"

	"verif/sim/refsmtpd"
	"verif/sim/sim"
)

// C16 — Authentication secrets never reach the debug log.
//
// Workload: every mechanism × generated high-entropy credentials × server scripts {success, 535
// at each step, malformed base64 challenge, unexpected extra challenge, disconnect mid-exchange,
// stall until the timeout} with a capturing log.Logger, the stock Stdlog and JSONlog writing to
// buffers, debug logging on, WithLogAuthData off (and, as the control group, on). After a
// successful AUTH a message is sent. Oracle: no captured record and no formatted logger output
// contains the password/token raw or in base64/base64url/hex, nor any SASL response line the
// client actually sent that carries it (PLAIN initial response, LOGIN password line, XOAUTH2
// initial response — taken from the server's view of the exchange); and the window closes: the
// post-auth MAIL FROM command appears verbatim in the log.

type C16Scenario struct {
	Client ClientCfg       `json:"client"`
	Server refsmtpd.Config `json:"server"`
	Script string          `json:"script"`
	Conn   sim.ConnFaults  `json:"conn,omitempty"`
	Sched  uint64          `json:"sched"`
	// Direct: the smtp package is driven directly — Auth is refused locally by the mechanism
	// (unencrypted connection or wrong host name), the server does not honour the QUIT that
	// follows, and the caller goes on using the connection. What follows must be logged normally.
	//
	// "late-debug": debug logging is off when the smtp.Client is set up and is switched on by
	// another task (an operator turning on the debug log at run time) at a scheduled point —
	// before, in the middle of, or after the AUTH exchange. From that moment on logging is on,
	// and what is logged must be free of secrets; after the exchange traffic is logged normally.
	Direct string `json:"direct,omitempty"` // "" | unencrypted | wronghost | late-debug
	// ToggleAfter: late-debug: virtual microseconds the toggling task waits first.
	ToggleAfter int `json:"toggleAfter,omitempty"`
}

type c16 struct{}

func init() { register(&c16{}) }

func (*c16) ID() string                     { return "C16" }
func (*c16) Level() string                  { return "exploration" }
func (*c16) Decode(raw []byte) (any, error) { return decodeInto[C16Scenario](raw) }

var c16Mechs = []string{"PLAIN-NOENC", "LOGIN-NOENC", "CRAM-MD5", "XOAUTH2", "SCRAM-SHA-1", "SCRAM-SHA-256", "PLAIN", "LOGIN", "SCRAM-SHA-256-PLUS", "SCRAM-SHA-1-PLUS", "AUTODISCOVER", "CUSTOM-PLAIN", "CUSTOM-LOGIN", "CUSTOM-STEPLOGIN"}
var c16Scripts = []string{"writefail-2", "writefail-3", "writefail-4", "success", "success", "fail-auth", "fail-resp1", "fail-resp2", "fail-resp3", "bad-password", "malformed-challenge", "extra-challenge", "drop-auth", "drop-resp1", "drop-resp2", "stall-resp1", "stall-auth", "early-235"}

func genSecret(r *sim.Rand, tag string) string {
	const alpha = "abcdefghijklmnopqrstuvwxyzABCDEFGHIJKLMNOPQRSTUVWXYZ0123456789"
	var b strings.Builder
	b.WriteString(tag)
	for k := 0; k < 18+r.Intn(10); k++ {
		b.WriteByte(alpha[r.Intn(len(alpha))])
	}
	if r.Chance(1, 3) {
		b.WriteString(sim.Pick(r, []string{"=", ",", " x", "+/", "ü", "<>", "\"q", "%41"}))
		b.WriteByte(alpha[r.Intn(len(alpha))])
	}
	return b.String()
}

func (p *c16) Gen(seed uint64, i int, tier string) (any, bool) {
	n := 60000
	if tier == "thorough" {
		n = 400000
	}
	if i >= n {
		return nil, false
	}
	r := sim.NewRand(sim.Derive(seed, 16, uint64(i)))
	if i%23 == 22 {
		sc := &C16Scenario{Script: "direct", Sched: sim.Derive(seed, 16, uint64(i), 1), Direct: sim.Pick(r, []string{"unencrypted", "wronghost"})}
		sc.Client = ClientCfg{User: genSecret(r, "U"), Pass: genSecret(r, "P"), AuthType: sim.Pick(r, []string{"PLAIN", "LOGIN"}), Logger: sim.Pick(r, []string{"capture", "std", "json"}), Debug: true}
		sc.Server.Caps = []string{"8BITMIME", authCaps(allMechs...)}
		sc.Server.Rules = []refsmtpd.Rule{{Verb: "QUIT", Nth: 1, Action: refsmtpd.Action{Code: sim.Pick(r, []int{502, 421, 250}), Text: "not now"}}}
		return sc, true
	}
	if i%23 == 20 {
		// the smtp package driven directly, debug logging on from the start: Auth is the first
		// call on the Client (it has to say hello itself), the server refuses the credentials
		// (or not), and the caller tries again on the same Client with another password
		sc := &C16Scenario{Script: "direct", Sched: sim.Derive(seed, 16, uint64(i), 1), Direct: "auth-first-retry"}
		sc.Client = ClientCfg{User: genSecret(r, "U"), Pass: genSecret(r, "P"), AuthType: sim.Pick(r, []string{"PLAIN", "LOGIN", "CRAM-MD5", "SCRAM-SHA-256", "PANIC"}), Logger: sim.Pick(r, []string{"capture", "std", "json"})}
		sc.Server.Caps = []string{"8BITMIME", authCaps(allMechs...)}
		if r.Chance(1, 3) {
			// a server that announces no AUTH line (or speaks HELO only); the caller
			// authenticates anyway
			sc.Server.Caps = []string{"8BITMIME"}
			sc.Server.NoEHLO = r.Chance(1, 3)
		}
		sc.Server.Auth = refsmtpd.AuthCfg{User: sc.Client.User, Pass: sc.Client.Pass, Salt: r.Bytes(12), Iter: 4, NonceSuffix: "SrvC16"}
		if r.Chance(1, 2) {
			sc.Server.Auth.Pass = genSecret(r, "X") // the first attempt is refused
		}
		if r.Chance(1, 2) {
			sc.Server.Rules = []refsmtpd.Rule{{Verb: "QUIT", Nth: 1, Action: refsmtpd.Action{Code: 502, Text: "not now"}}}
		}
		if r.Chance(1, 3) {
			// no reply to a line of the exchange (the server hangs up, or answers with something
			// that is no reply): Auth returns, the caller goes on using the Client
			sc.Server.Rules = append(sc.Server.Rules, refsmtpd.Rule{Verb: sim.Pick(r, []string{"AUTH", "AUTHRESP", "AUTHRESP"}), Nth: 1 + r.Intn(2),
				Action: refsmtpd.Action{Kind: sim.Pick(r, []string{"drop", "garbage", "drop"})}})
		}
		return sc, true
	}
	if i%23 == 21 {
		sc := &C16Scenario{Script: "direct", Sched: sim.Derive(seed, 16, uint64(i), 1), Direct: "late-debug", ToggleAfter: r.Intn(1200)}
		sc.Client = ClientCfg{User: genSecret(r, "U"), Pass: genSecret(r, "P"), AuthType: sim.Pick(r, []string{"PLAIN", "LOGIN", "CRAM-MD5", "SCRAM-SHA-256"}), Logger: sim.Pick(r, []string{"capture", "std", "json"})}
		sc.Server.Caps = []string{"8BITMIME", authCaps(allMechs...)}
		if r.Chance(1, 3) {
			// a server that announces no AUTH line (or speaks HELO only); the caller
			// authenticates anyway
			sc.Server.Caps = []string{"8BITMIME"}
			sc.Server.NoEHLO = r.Chance(1, 3)
		}
		sc.Server.Auth = refsmtpd.AuthCfg{User: sc.Client.User, Pass: sc.Client.Pass, Salt: r.Bytes(12), Iter: 4, NonceSuffix: "SrvC16"}
		if r.Chance(1, 4) {
			sc.Server.Rules = []refsmtpd.Rule{{Verb: "AUTHRESP", Nth: 1 + r.Intn(2), Action: refsmtpd.Action{Code: 535, Text: "authentication credentials invalid"}}}
		}
		return sc, true
	}
	mech := c16Mechs[i%len(c16Mechs)]
	script := c16Scripts[(i/len(c16Mechs))%len(c16Scripts)]
	user, pass := genSecret(r, "U"), genSecret(r, "P")
	if r.Chance(1, 8) {
		// a long secret (a passphrase, a JWT-sized token): the AUTH line with its initial
		// response is longer than the 512 octets of an ordinary command line
		const alpha = "abcdefghijklmnopqrstuvwxyzABCDEFGHIJKLMNOPQRSTUVWXYZ0123456789-_."
		var b strings.Builder
		b.WriteString(pass)
		for n := 380 + r.Intn(700); n > 0; n-- {
			b.WriteByte(alpha[r.Intn(len(alpha))])
		}
		pass = b.String()
	}
	if len(pass)%7 == 3 {
		// a short secret (six characters: its base64 form is no longer than a command verb)
		pass = pass[:6]
	}
	sc := &C16Scenario{Script: script, Sched: sim.Derive(seed, 16, uint64(i), 1)}
	sc.Client = ClientCfg{AuthType: mech, User: user, Pass: pass, TLSPolicy: "none", Debug: true, TimeoutMs: 2000,
		Logger: sim.Pick(r, []string{"capture", "std", "json"}), LogAuthData: i%17 == 16}
	sc.Server.Caps = []string{"8BITMIME", authCaps(allMechs...)}
	sc.Server.Auth = refsmtpd.AuthCfg{User: user, Pass: pass, Salt: r.Bytes(12), Iter: 4, NonceSuffix: "SrvC16"}
	if strings.HasSuffix(mech, "PLUS") || mech == "PLAIN" || mech == "LOGIN" || strings.HasPrefix(mech, "CUSTOM") || (mech == "AUTODISCOVER" && r.Chance(1, 2)) {
		sc.Client.TLSPolicy = "mandatory"
		sc.Server.Caps = append(sc.Server.Caps, "STARTTLS")
		sc.Server.TLS = refsmtpd.TLSCfg{Cert: "valid", Version: sim.Pick(r, []string{"1.2", "1.3"})}
	}
	sc.Server.Auth.LoginPrompts = sim.Pick(r, LoginPromptSets)
	fail := refsmtpd.Action{Code: 535, Text: "authentication credentials invalid"}
	switch script {
	case "fail-auth":
		sc.Server.Rules = []refsmtpd.Rule{{Verb: "AUTH", Nth: 1, Action: fail}}
	case "fail-resp1", "fail-resp2", "fail-resp3":
		sc.Server.Rules = []refsmtpd.Rule{{Verb: "AUTHRESP", Nth: int(script[len(script)-1] - '0'), Action: fail}}
	case "bad-password":
		sc.Server.Auth.Pass = genSecret(r, "X")
	case "malformed-challenge":
		sc.Server.Rules = []refsmtpd.Rule{{Verb: sim.Pick(r, []string{"AUTH", "AUTHRESP"}), Nth: 1, Action: refsmtpd.Action{Kind: "raw", Code: 334, Text: "!!! this is *not* base64 !!!"}}}
	case "extra-challenge":
		sc.Server.Rules = []refsmtpd.Rule{{Verb: "AUTHRESP", Nth: 1 + r.Intn(4), Action: refsmtpd.Action{Kind: "raw", Code: 334, Text: base64.StdEncoding.EncodeToString([]byte("one more thing?"))}}}
	}
	if (script == "malformed-challenge" || script == "extra-challenge") && r.Chance(1, 2) {
		// the client gives up with "*"; this server does not honour it and echoes the last
		// response it got in another 334
		sc.Server.Auth.EchoOnCancel = true
	}
	switch script {
	case "early-235":
		// the server gives its verdict one step earlier than the mechanism expects
		sc.Server.Rules = []refsmtpd.Rule{{Verb: "AUTHRESP", Nth: 1 + r.Intn(3), Action: refsmtpd.Action{Code: 235, Text: "authentication succeeded"}}}
	case "drop-auth":
		sc.Server.Rules = []refsmtpd.Rule{{Verb: "AUTH", Nth: 1, Action: refsmtpd.Action{Kind: "drop"}}}
	case "drop-resp1", "drop-resp2":
		sc.Server.Rules = []refsmtpd.Rule{{Verb: "AUTHRESP", Nth: int(script[len(script)-1] - '0'), Action: refsmtpd.Action{Kind: "drop"}}}
	case "stall-resp1":
		sc.Server.Rules = []refsmtpd.Rule{{Verb: "AUTHRESP", Nth: 1, Action: refsmtpd.Action{Kind: "stall"}}}
	case "stall-auth":
		sc.Server.Rules = []refsmtpd.Rule{{Verb: "AUTH", Nth: 1, Action: refsmtpd.Action{Kind: "stall"}}}
	case "writefail-2", "writefail-3", "writefail-4":
		// the transport refuses the n-th write of the client: on a plain connection write 1 is
		// EHLO, write 2 the AUTH line, writes 3.. the SASL responses
		sc.Conn.WriteFailNth = int(script[len(script)-1] - '0')
	}
	if r.Chance(1, 10) && (strings.HasPrefix(mech, "LOGIN") || mech == "CUSTOM-LOGIN" || mech == "CRAM-MD5") {
		// an empty user name is unusual but expressible in these mechanisms
		sc.Client.User, sc.Server.Auth.User = "", ""
	}
	return sc, true
}

func secretForms(pass string) map[string]string {
	f := map[string]string{"raw": pass}
	b := []byte(pass)
	f["base64"] = base64.StdEncoding.EncodeToString(b)
	f["base64-nopad"] = base64.RawStdEncoding.EncodeToString(b)
	f["base64url"] = base64.URLEncoding.EncodeToString(b)
	f["hex"] = hex.EncodeToString(b)
	f["HEX"] = strings.ToUpper(hex.EncodeToString(b))
	return f
}

func (p *c16) Exec(t *testing.T, scAny any) Outcome {
	sc := scAny.(*C16Scenario)
	if sc.Direct == "late-debug" || sc.Direct == "auth-first-retry" {
		return p.execLateDebug(t, sc)
	}
	if sc.Direct != "" {
		return p.execDirect(t, sc)
	}
	var out Outcome
	capture := &CaptureLogger{}
	var buf bytes.Buffer
	var logger mlog.Logger
	switch sc.Client.Logger {
	case "std":
		logger = mlog.New(&buf, mlog.LevelDebug)
	case "json":
		logger = mlog.NewJSON(&buf, mlog.LevelDebug)
	default:
		logger = capture
	}
	var env *NetEnv
	var dial *CallRec
	sent := false
	res := RunSim(t, sc.Sched, sim.Policy{Kind: "random"}, 0, time.Hour, func(k *sim.Kernel) (func(), func()) {
		env = &NetEnv{K: k, Srv: refsmtpd.New(k, sc.Server, TLSMat), Host: sc.Client.host(), Faults: []sim.ConnFaults{sc.Conn}}
		return func() {
			c, err := BuildClient(sc.Client, env.Dial, logger)
			if err != nil {
				out.Infra = err.Error()
				return
			}
			dial = env.Call("DialWithContext", func() error { return c.DialWithContext(context.Background()) })
			if dial.Err == nil && dial.Panic == nil && dial.Returned {
				b := BuildMsg(SimpleMsg("afterauth"), BuildOpts{})
				call := env.Call("Send", func() error { return c.Send([]*mail.Msg{b.Msg}...) })
				sent = call.Err == nil && call.Returned
				env.Call("Close", c.Close)
			}
		}, env.Freeze
	})
	out.SimNs, out.Steps, out.Digest = res.VirtualNs, res.Steps, res.Digest
	if out.Infra != "" {
		return out
	}
	if res.BubbleErr != "" {
		out.Infra = "bubble: " + res.BubbleErr
		return out
	}
	if dial == nil {
		out.Infra = "client task did not run"
		return out
	}
	if dial.Panic != nil {
		out.violate("C16:panic", "DialWithContext panicked: %v\n%s", dial.Panic, dial.PanicStack)
	}
	// everything that was logged, in every representation a reader of the log would see
	var texts []string
	for _, r := range capture.Records {
		texts = append(texts, r.Text)
	}
	texts = append(texts, capture.Late()...) // the same records, formatted after the fact
	if buf.Len() > 0 {
		texts = append(texts, buf.String())
		if sc.Client.Logger == "json" {
			for _, line := range strings.Split(buf.String(), "\n") {
				var m map[string]any
				if json.Unmarshal([]byte(line), &m) == nil {
					var walk func(v any)
					walk = func(v any) {
						switch x := v.(type) {
						case string:
							texts = append(texts, x)
						case map[string]any:
							for _, y := range x {
								walk(y)
							}
						case []any:
							for _, y := range x {
								walk(y)
							}
						}
					}
					walk(m)
				}
			}
		}
	}
	all := strings.Join(texts, "\n")
	// the secrets and the lines that carried them
	needles := map[string]string{}
	for k, v := range secretForms(sc.Client.Pass) {
		needles["password:"+k] = v
	}
	mechUsed := ""
	nresp := 0
	for _, e := range env.Srv.H.Events {
		if e.Kind != "cmd" {
			continue
		}
		switch e.Verb {
		case "AUTH":
			f := strings.Fields(e.Line)
			if len(f) >= 2 {
				mechUsed = strings.ToUpper(f[1])
			}
			nresp = 0
			if len(f) >= 3 && (mechUsed == "PLAIN" || mechUsed == "XOAUTH2") && len(f[2]) > 8 {
				needles["sasl-line:"+mechUsed+"-initial-response"] = f[2]
			}
		case "AUTHRESP":
			nresp++
			if mechUsed == "LOGIN" && nresp == 2 && len(e.Line) > 8 {
				needles["sasl-line:LOGIN-password"] = e.Line
			}
			if (mechUsed == "PLAIN" || mechUsed == "XOAUTH2") && nresp == 1 && len(e.Line) > 8 && e.Line != "*" {
				// the response that carries the secret came on a line of its own (after a 334)
				needles["sasl-line:"+mechUsed+"-response"] = e.Line
			}
		}
	}
	leaked := false
	for what, needle := range needles {
		if needle != "" && strings.Contains(all, needle) {
			leaked = true
			if sc.Client.LogAuthData {
				continue
			}
			where := ""
			for _, tx := range texts {
				if strings.Contains(tx, needle) {
					where = tx
					break
				}
			}
			form := what
			out.violate("C16:leak:"+form, "with debug logging on and auth-data logging off, the %s logger output contains the %s of mechanism %s (server script %s): %q", sc.Client.Logger, what, mechUsed, sc.Script, clipStr(where, 300))
		}
	}
	if sc.Client.LogAuthData {
		out.stat("control-group.runs", 1)
		if leaked {
			out.stat("probe.control-group-secret-visible", 1)
		}
	}
	if sent && !strings.Contains(all, "MAIL FROM:<sender-afterauth@origin.example>") {
		out.violate("C16:window-not-closed", "authentication succeeded and a message was sent, but the log does not show its MAIL FROM command verbatim (logger %s, mechanism %s); log tail: %q", sc.Client.Logger, mechUsed, clipStr(tailStr(all, 400), 400))
	}
	if len(texts) == 0 {
		out.Infra = "nothing was logged although debug logging is on"
	}
	if sent {
		out.stat("probe.message-sent-after-auth", 1)
	}
	out.stat("script."+sc.Script, 1)
	out.stat("logger."+sc.Client.Logger, 1)
	if mechUsed != "" {
		out.stat("mechanism-used."+mechUsed, 1)
	}
	for _, pp := range env.Pipes {
		if pp.WriteFailFired {
			out.stat("fault.fired.client_write_refused", 1)
		}
	}
	for _, e := range env.Srv.H.Events {
		if e.Kind == "reply" && (e.Verb == "AUTH" || e.Verb == "AUTHRESP") {
			switch {
			case e.Action == "drop":
				out.stat("fault.fired.disconnect_in_auth", 1)
			case e.Action == "stall":
				out.stat("fault.fired.stall_in_auth", 1)
			case e.Action == "raw":
				out.stat("fault.fired.scripted_challenge", 1)
			case e.Code >= 400:
				out.stat("fault.fired.auth_refused", 1)
			}
		}
	}
	out.Key = fmt.Sprintf("%s|%s|%s|%s|%v|%v", sc.Client.AuthType, mechUsed, sc.Script, sc.Client.Logger, sc.Client.LogAuthData, dial.Err == nil)
	out.Nontrivial = mechUsed != ""
	return out
}

func clipStr(s string, n int) string {
	if len(s) > n {
		return s[:n] + "…"
	}
	return s
}

func tailStr(s string, n int) string {
	if len(s) > n {
		return s[len(s)-n:]
	}
	return s
}

func (p *c16) Shrink(scAny any) []any {
	sc := scAny.(*C16Scenario)
	var out []any
	if len(sc.Server.Rules) > 0 {
		c := *sc
		c.Server.Rules = nil
		c.Script = "success"
		out = append(out, &c)
	}
	if sc.Client.Logger != "capture" {
		c := *sc
		c.Client.Logger = "capture"
		out = append(out, &c)
	}
	return out
}

func (p *c16) Info() PropInfo {
	return PropInfo{
		Rule: "seeded search, round-robin over 14 auth types (incl. a step-counting custom LOGIN mechanism that ignores the more flag) x 18 scripts {235 one, two or three steps early, the transport refuses the client's 2nd/3rd/4th write (the AUTH line and the SASL responses on a plain connection), success (x2), 535 to AUTH / to the 1st/2nd/3rd response, wrong stored password, malformed base64 challenge, unexpected extra challenge, disconnect at AUTH / 1st / 2nd response, silent stall at AUTH / 1st response until the timeout} x LOGIN prompt spellings x {the cancel honoured, answered with an echo of the last response} x logger kind {capturing log.Logger, Stdlog, JSONlog} with high-entropy generated credentials (some with = , blank + / non-ASCII < > \" %; an eighth 400..1100 characters long); every 17th run is the control group with WithLogAuthData on; every 23rd run drives the smtp package directly (Auth refused locally by PLAIN/LOGIN, QUIT not honoured by the server, NOOP and MAIL follow on the same connection and must be logged verbatim); every 23rd run (a third residue) has Auth as the first call on the smtp.Client and, after a refusal, a second Auth with another password on the same Client; every 23rd run (another residue) is late-debug: the smtp package driven directly with debug logging off, and a second task that switches it on at a scheduled virtual instant 0..1.2 ms after the exchange started (before, during or after it; PLAIN, LOGIN, CRAM-MD5, SCRAM-SHA-256, optionally a 535); non-trivial = an AUTH command reached the server; distinct = distinct (auth type, mechanism used, script, logger, control group, outcome); an eighth of the passwords six characters long; in the auth-first-retry runs a third with no reply to a line of the exchange (hang-up or garbage) before the caller goes on using the Client",
		Assumptions: []string{"searched forms of the secret: raw, base64 (padded and unpadded), base64url, hex (both cases), plus the PLAIN/XOAUTH2 initial responses and the LOGIN password line exactly as the server received them; for JSONlog also every decoded string field",
			"CRAM-MD5 digests and SCRAM proofs are not required to be absent (they do not carry the password; the statement does not demand it)"},
		Real:        []string{"go-mail smtp.Client (cmd/Auth redaction window), Client debug-log plumbing, log.Stdlog, log.JSONlog, all SASL mechanisms", "crypto/tls where the mechanism needs it"},
		Stubbed:     []string{"TCP", "SMTP server with scripted AUTH behaviour", "clock", "crypto/rand"},
		Exhaustive:  func(string) bool { return false },
		QuickBudget: 100 * time.Second, ThoroughBudget: 25 * time.Minute,
	}
}

// execDirect: see C16Scenario.Direct.
func (p *c16) execDirect(t *testing.T, sc *C16Scenario) Outcome {
	var out Outcome
	capture := &CaptureLogger{}
	var buf bytes.Buffer
	var logger mlog.Logger = capture
	switch sc.Client.Logger {
	case "std":
		logger = mlog.New(&buf, mlog.LevelDebug)
	case "json":
		logger = mlog.NewJSON(&buf, mlog.LevelDebug)
	}
	var env *NetEnv
	var authErr error
	ran := false
	res := RunSim(t, sc.Sched, sim.Policy{Kind: "random"}, 0, time.Hour, func(k *sim.Kernel) (func(), func()) {
		env = &NetEnv{K: k, Srv: refsmtpd.New(k, sc.Server, TLSMat)}
		return func() {
			conn, _ := env.Dial(context.Background(), "tcp", "mx.sim.example:25")
			c, err := smtp.NewClient(conn, "mx.sim.example")
			if err != nil {
				return
			}
			c.SetLogger(logger)
			c.SetDebugLog(true)
			if err := c.Hello("client.sim.example"); err != nil {
				return
			}
			host := "mx.sim.example"
			if sc.Direct == "wronghost" {
				host = "some.other.host.example"
			}
			var a smtp.Auth = smtp.PlainAuth("", sc.Client.User, sc.Client.Pass, host, sc.Direct == "wronghost")
			if sc.Client.AuthType == "LOGIN" {
				a = smtp.LoginAuth(sc.Client.User, sc.Client.Pass, host, sc.Direct == "wronghost")
			}
			authErr = c.Auth(a)
			_ = c.Noop()
			_ = c.Mail("sender-afterauth@origin.example")
			ran = true
			_ = c.Close()
		}, env.Freeze
	})
	out.SimNs, out.Steps, out.Digest = res.VirtualNs, res.Steps, res.Digest
	if res.BubbleErr != "" {
		out.Infra = "bubble: " + res.BubbleErr
		return out
	}
	if !ran {
		out.stat("not-judged.direct-run-did-not-complete", 1)
		return out
	}
	var texts []string
	for _, r := range capture.Records {
		texts = append(texts, r.Text)
	}
	texts = append(texts, capture.Late()...) // the same records, formatted after the fact
	texts = append(texts, buf.String())
	all := strings.Join(texts, "\n")
	if authErr == nil {
		out.Infra = "the mechanism was expected to refuse locally, but Auth returned nil"
		return out
	}
	for k, v := range secretForms(sc.Client.Pass) {
		if strings.Contains(all, v) {
			out.violate("C16:leak:password:"+k, "smtp package used directly, Auth refused locally (%v): the log contains the password (%s form)", authErr, k)
		}
	}
	sawNoop, sawMail := false, false
	for _, e := range env.Srv.H.Events {
		if e.Kind == "cmd" && e.Verb == "NOOP" {
			sawNoop = true
		}
		if e.Kind == "cmd" && e.Verb == "MAIL" {
			sawMail = true
		}
	}
	if sawNoop && !strings.Contains(all, "NOOP") || sawMail && !strings.Contains(all, "MAIL FROM:<sender-afterauth@origin.example>") {
		out.violate("C16:window-not-closed:after-local-refusal", "Auth was refused locally by the mechanism (%v) and the connection stayed usable; the NOOP/MAIL that followed reached the server but are not in the log verbatim (log tail: %q)", authErr, clipStr(tailStr(all, 300), 300))
	}
	out.stat("runs.smtp-direct", 1)
	out.Key = fmt.Sprintf("direct|%s|%s|%s|%v", sc.Direct, sc.Client.AuthType, sc.Client.Logger, sc.Server.Rules[0].Code)
	out.Nontrivial = sawNoop || sawMail
	return out
}

// execLateDebug: see C16Scenario.Direct.
func (p *c16) execLateDebug(t *testing.T, sc *C16Scenario) Outcome {
	var out Outcome
	capture := &CaptureLogger{}
	var buf bytes.Buffer
	var logger mlog.Logger = capture
	switch sc.Client.Logger {
	case "std":
		logger = mlog.New(&buf, mlog.LevelDebug)
	case "json":
		logger = mlog.NewJSON(&buf, mlog.LevelDebug)
	}
	var env *NetEnv
	var authErr error
	ran := false
	toggledAt, authFrom, authTo := -1, -1, -1
	secondPass := ""
	res := RunSim(t, sc.Sched, sim.Policy{Kind: "random"}, 0, time.Hour, func(k *sim.Kernel) (func(), func()) {
		env = &NetEnv{K: k, Srv: refsmtpd.New(k, sc.Server, TLSMat)}
		return func() {
			conn, _ := env.Dial(context.Background(), "tcp", "mx.sim.example:25")
			c, err := smtp.NewClient(conn, "mx.sim.example")
			if err != nil {
				return
			}
			c.SetLogger(logger)
			mk := func(pass string) smtp.Auth {
				switch sc.Client.AuthType {
				case "LOGIN":
					return smtp.LoginAuth(sc.Client.User, pass, "mx.sim.example", true)
				case "CRAM-MD5":
					return smtp.CRAMMD5Auth(sc.Client.User, pass)
				case "SCRAM-SHA-256":
					return smtp.ScramSHA256Auth(sc.Client.User, pass)
				}
				return smtp.PlainAuth("", sc.Client.User, pass, "mx.sim.example", true)
			}
			if sc.Direct == "auth-first-retry" {
				c.SetDebugLog(true)
				toggledAt = 0
				authFrom = k.Steps
				if sc.Client.AuthType == "PANIC" {
					// a mechanism of the caller's own that falls over in the middle of the
					// exchange; the caller recovers and goes on using the connection
					func() {
						defer func() {
							if r := recover(); r != nil {
								authErr = fmt.Errorf("mechanism panicked: %v", r)
							}
						}()
						authErr = c.Auth(&panicAuth{user: sc.Client.User, pass: sc.Client.Pass})
					}()
				} else {
					authErr = c.Auth(mk(sc.Client.Pass)) // no Hello before: Auth says hello itself
				}
				if sc.Client.AuthType != "PANIC" && (authErr != nil || sc.Sched%2 == 0) {
					// the caller authenticates again on the same Client — after a refusal (whatever
					// state that left the connection in), or after a success (another account) —
					// with another password
					secondPass = sc.Client.Pass + "-2nd" + sc.Client.User[:4]
					_ = c.Auth(mk(secondPass))
				}
				authTo = k.Steps
				_ = c.Noop()
				_ = c.Mail("sender-afterauth@origin.example")
				ran = true
				_ = c.Close()
				return
			}
			if err := c.Hello("client.sim.example"); err != nil {
				return
			}
			tog := k.Go("operator", func() {
				k.Sleep(time.Duration(sc.ToggleAfter) * time.Microsecond)
				toggledAt = k.Steps
				c.SetDebugLog(true)
			})
			a := mk(sc.Client.Pass)
			authFrom = k.Steps
			authErr = c.Auth(a)
			authTo = k.Steps
			k.Join(tog)
			_ = c.Noop()
			_ = c.Mail("sender-afterauth@origin.example")
			ran = true
			_ = c.Close()
		}, env.Freeze
	})
	out.SimNs, out.Steps, out.Digest = res.VirtualNs, res.Steps, res.Digest
	if res.BubbleErr != "" {
		out.Infra = "bubble: " + res.BubbleErr
		return out
	}
	if !ran {
		out.stat("not-judged.direct-run-did-not-complete", 1)
		return out
	}
	var texts []string
	for _, r := range capture.Records {
		texts = append(texts, r.Text)
	}
	texts = append(texts, capture.Late()...) // the same records, formatted after the fact
	texts = append(texts, buf.String())
	all := strings.Join(texts, "\n")
	when := "before-auth"
	switch {
	case toggledAt > authTo:
		when = "after-auth"
	case toggledAt >= authFrom:
		when = "during-auth"
	}
	mode := "late-debug"
	if sc.Direct == "auth-first-retry" {
		mode, when = "auth-first-retry", "before the first call"
		out.stat("probe.auth-is-the-first-call", 1)
		if secondPass != "" {
			out.stat("probe.second-auth-on-the-same-client", 1)
		}
	} else {
		out.stat("probe.debug-switched-on-"+when, 1)
	}
	for k, v := range secretForms(sc.Client.Pass) {
		if strings.Contains(all, v) {
			out.violate("C16:leak:password:"+k+":"+mode, "debug logging switched on %s (%s, Auth returned %v): the log contains the password (%s form)", when, sc.Client.AuthType, authErr, k)
		}
	}
	if secondPass != "" {
		for k, v := range secretForms(secondPass) {
			if strings.Contains(all, v) {
				out.violate("C16:leak:password:"+k+":second-attempt", "second Auth on the same smtp.Client after a refused one (%s, first error %v): the log contains the second password (%s form)", sc.Client.AuthType, authErr, k)
			}
		}
		if sc.Client.AuthType == "PLAIN" {
			triple := base64.StdEncoding.EncodeToString([]byte("\x00" + sc.Client.User + "\x00" + secondPass))
			if strings.Contains(all, triple) {
				out.violate("C16:leak:sasl-response:second-attempt", "second Auth on the same smtp.Client after a refused one: the log contains the PLAIN response of the second attempt")
			}
		}
	}
	// the SASL lines that carry the secret, as the server saw them
	nresp := 0
	for _, e := range env.Srv.H.Events {
		if e.Kind != "cmd" {
			continue
		}
		line := ""
		switch {
		case e.Verb == "AUTH" && sc.Client.AuthType == "PLAIN":
			if f := strings.Fields(e.Line); len(f) == 3 {
				line = f[2]
			}
		case e.Verb == "AUTHRESP":
			nresp++
			if (sc.Client.AuthType == "LOGIN" && nresp == 2) || (sc.Client.AuthType == "PLAIN" && nresp == 1) {
				line = strings.TrimSpace(e.Line)
			}
		}
		if len(line) >= 12 && strings.Contains(all, line) {
			out.violate("C16:leak:sasl-response:"+mode, "debug logging switched on %s (%s): the log contains the SASL response %q that carries the password", when, sc.Client.AuthType, clipStr(line, 60))
		}
	}
	sawMail := false
	for _, e := range env.Srv.H.Events {
		if e.Kind == "cmd" && e.Verb == "MAIL" {
			sawMail = true
		}
	}
	sawAuth := false
	for _, e := range env.Srv.H.Events {
		if e.Kind == "cmd" && e.Verb == "AUTH" {
			sawAuth = true
		}
	}
	if sawAuth && !sawMail && !strings.Contains(all, "MAIL FROM:<sender-afterauth@origin.example>") {
		// the exchange ended with the connection gone (535 and QUIT, a disconnect): the MAIL the
		// caller tries next never reaches the server, but it is logged before it is written — and
		// it is no authentication data
		out.violate("C16:window-not-closed:connection-gone:"+mode, "debug logging switched on %s (%s, Auth returned %v): the caller's next command (MAIL) was logged, but not verbatim — the log still hides what is sent after the authentication has ended (log tail: %q)", when, sc.Client.AuthType, authErr, clipStr(tailStr(all, 300), 300))
	}
	if sawMail && !strings.Contains(all, "MAIL FROM:<sender-afterauth@origin.example>") {
		out.violate("C16:window-not-closed:"+mode, "debug logging switched on %s (%s, Auth returned %v): the MAIL command that followed the exchange reached the server but is not in the log verbatim (log tail: %q)", when, sc.Client.AuthType, authErr, clipStr(tailStr(all, 300), 300))
	}
	out.stat("runs.smtp-direct-"+mode, 1)
	out.Key = fmt.Sprintf("%s|%s|%s|%d|%v|%v", mode+"|"+when, sc.Client.AuthType, sc.Client.Logger, sc.ToggleAfter, authErr == nil, secondPass != "")
	out.Nontrivial = true
	return out
}

// panicAuth sends its credentials with the AUTH command (like PLAIN) and panics when asked for
// the next step.
type panicAuth struct{ user, pass string }

func (a *panicAuth) Start(*smtp.ServerInfo) (string, []byte, error) {
	return "LOGIN", []byte(a.user), nil
}

func (a *panicAuth) Next([]byte, bool) ([]byte, error) {
	panic("the caller's own mechanism fell over (" + a.pass[:1] + "...)")
}
