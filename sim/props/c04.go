package props

import (
	"fmt"
	"regexp"
	"strings"
	"testing"
	"time"

	"verif/sim/refsmtpd"
	"verif/sim/sim"
)

// C04 — The SMTP dialogue stays legal and in step under every reply script.
//
// For seeded configurations (capability subset, a different set after STARTTLS, EHLO refused →
// HELO, DSN/encoding/WithoutNoop options, batches ≤ 3 messages × ≤ 3 recipients): every
// single-fault reply script (each command position × {4yz, 5yz, disconnect}), every pair of
// faults (thorough), and sampled multi-fault scripts. Oracle: the reference automaton's
// observations (RFC 5321 §4.1.4 order of commands, parameters only for advertised extensions,
// nothing before the greeting, no command while a reply is outstanding), local refusal of 8bit
// messages without 8BITMIME, and reply attribution through unique tokens.

type c04 struct{}

func init() { register(&c04{}) }

func (*c04) ID() string                     { return "C04" }
func (*c04) Level() string                  { return "fault_enumeration" }
func (*c04) Decode(raw []byte) (any, error) { return decodeInto[SendScenario](raw) }

type c04Pos struct {
	verb string
	nth  int
}

func c04Config(seed uint64, c int) (*SendScenario, []c04Pos) {
	r := sim.NewRand(sim.Derive(seed, 4, uint64(c)))
	sc := &SendScenario{Label: fmt.Sprintf("cfg%d", c)}
	all := []string{"8BITMIME", "SMTPUTF8", "DSN", "ENHANCEDSTATUSCODES", "STARTTLS", "AUTH"}
	// one configuration in six spells the service extensions the way RFC 5321 4.1.1.1 allows
	// and few servers do: not in upper case (STARTTLS and AUTH keep their usual spelling, the
	// generator itself looks for them)
	spell := r.Intn(12)
	pick := func() []string {
		var caps []string
		for _, k := range all {
			if r.Chance(1, 2) {
				switch {
				case k == "AUTH" && c%3 == 1:
					// mechanisms whose names merely contain the name of the one the client is
					// configured for (what Gmail announces, for example)
					caps = append(caps, "AUTH LOGIN PLAIN-CLIENTTOKEN OAUTHBEARER XOAUTH2")
				case k == "AUTH":
					caps = append(caps, "AUTH PLAIN LOGIN")
				case k != "STARTTLS" && spell == 0:
					caps = append(caps, strings.ToLower(k))
				case k != "STARTTLS" && spell == 1:
					caps = append(caps, k[:1]+strings.ToLower(k[1:]))
				default:
					caps = append(caps, k)
				}
			}
		}
		return caps
	}
	sc.Server.Caps = pick()
	has := func(caps []string, k string) bool {
		for _, c := range caps {
			if strings.HasPrefix(c, k) {
				return true
			}
		}
		return false
	}
	sc.Client.TLSPolicy = sim.Pick(r, []string{"none", "none", "opportunistic", "mandatory"})
	if sc.Client.TLSPolicy == "mandatory" && !has(sc.Server.Caps, "STARTTLS") && r.Chance(3, 4) {
		sc.Server.Caps = append(sc.Server.Caps, "STARTTLS")
	}
	sc.Server.TLS.Cert = "valid"
	if r.Chance(1, 2) {
		sc.Server.UseCapsTLS = true
		sc.Server.CapsTLS = pick()
	}
	if r.Chance(1, 6) {
		sc.Server.NoEHLO = true
	}
	if r.Chance(1, 3) {
		sc.Client.DSN = true
		if r.Chance(1, 2) {
			sc.Client.DSNRet = sim.Pick(r, []string{"FULL", "HDRS"})
		}
		if r.Chance(1, 2) {
			sc.Client.DSNNotify = sim.Pick(r, [][]string{{"SUCCESS"}, {"FAILURE", "DELAY"}, {"NEVER"}, {"SUCCESS", "FAILURE", "DELAY"}})
		}
	}
	sc.Client.NoNoop = r.Chance(1, 4)
	sc.Server.MultiLine = r.Chance(1, 4)
	tlsActive := sc.Client.TLSPolicy != "none" && has(sc.Server.Caps, "STARTTLS") && !sc.Server.NoEHLO
	capsAtAuth := sc.Server.Caps
	if tlsActive && sc.Server.UseCapsTLS {
		capsAtAuth = sc.Server.CapsTLS
	}
	if has(capsAtAuth, "AUTH") && !sc.Server.NoEHLO && r.Chance(1, 2) {
		sc.Client.AuthType = "PLAIN-NOENC"
		sc.Client.User, sc.Client.Pass = "user-c04", "pass-c04"
		sc.Server.Auth = refsmtpd.AuthCfg{User: "user-c04", Pass: "pass-c04"}
	}
	sc.Op = sim.Pick(r, []string{"dialandsend", "send"})
	nm := 1 + r.Intn(3)
	var batch []MsgSpec
	nrTotal := 0
	for m := 0; m < nm; m++ {
		nr := 1 + r.Intn(3)
		var to []string
		for k := 0; k < nr; k++ {
			to = append(to, fmt.Sprintf("to%d-m%d@dest.example", k, m))
		}
		nrTotal += nr
		ms := SimpleMsg(fmt.Sprintf("m%d", m), to...)
		ms.Enc = sim.Pick(r, []string{"quoted-printable", "base64", "8bit", "quoted-printable"})
		if ms.Enc != "8bit" && (c+m)%5 == 0 {
			// a message that is not 8bit as a whole, but carries a body part or a file that is
			// sent unencoded under the label 8bit: for the wire it is an 8bit message
			if (c+m)%10 == 0 {
				ms.Parts[0].Enc = "8bit"
				ms.Parts[0].Content.Data = []byte("body of " + ms.Token + " with an ümlaut\r\nsecond line\r\n")
			} else {
				ms.Attach = append(ms.Attach, FileSpec{Name: "notes-" + ms.Token + ".txt", Enc: "8bit", Content: ContentSpec{Data: []byte("notes of " + ms.Token + ": señor\r\n")}})
			}
		}
		batch = append(batch, ms)
	}
	// every now and then the content of one message cannot be produced (a failing body writer)
	// while the connection is healthy: whatever the client does about it, the messages after it
	// must find a session that is legal and in step
	if r.Chance(1, 8) {
		at := r.Intn(len(batch))
		body := []byte(strings.Repeat("a line of a body that is never completed\r\n", 6))
		batch[at].Parts[0] = PartSpec{Type: "text/plain", Content: ContentSpec{Data: body, Chunks: []int{13}, Fail: true, FailAt: len(body) / 2}}
	}
	// every now and then the batch holds a nil message, or a message without sender (both are
	// refused locally and must not disturb the dialogue of the others)
	if r.Chance(1, 8) {
		at := r.Intn(len(batch) + 1)
		nb := append([]MsgSpec(nil), batch[:at]...)
		nb = append(nb, MsgSpec{Token: "nil", NoMsg: true})
		batch = append(nb, batch[at:]...)
	}
	if r.Chance(1, 8) {
		ms := SimpleMsg("nofrom", "x@dest.example")
		ms.From = ""
		batch = append(batch, ms)
	}
	if r.Chance(1, 8) {
		// a message with a sender and no recipient at all, somewhere in the batch
		ms := SimpleMsg("norcpt", "x@dest.example")
		ms.To = nil
		at := r.Intn(len(batch) + 1)
		nb := append([]MsgSpec(nil), batch[:at]...)
		nb = append(nb, ms)
		batch = append(nb, batch[at:]...)
	}
	sc.Batches = [][]MsgSpec{batch}
	if sc.Op == "send" && r.Chance(1, 4) {
		// a second Send call on the same connection
		sc.Batches = append(sc.Batches, []MsgSpec{SimpleMsg("second", "y@dest.example")})
		nm++
		nrTotal++
	}
	var ps []c04Pos
	add := func(v string, n int) {
		for k := 1; k <= n; k++ {
			ps = append(ps, c04Pos{v, k})
		}
	}
	add("GREET", 1)
	add("EHLO", 2)
	add("HELO", 1)
	add("STARTTLS", 1)
	if sc.Client.AuthType != "" {
		add("AUTH", 1)
	}
	add("NOOP", nm+1)
	add("MAIL", nm)
	add("RCPT", nrTotal)
	add("DATA", nm)
	add("EOD", nm)
	add("RSET", nm)
	add("QUIT", 1)
	return sc, ps
}

// the last kind is a positive reply that arrives after the client's timeout (15 s) has expired
// but before a second one would: whatever the client does about the timeout, it must not read
// that reply as the answer to something else
var c04Kinds = []refsmtpd.Action{{Code: 451, Text: "temporary failure"}, {Code: 550, Text: "permanent failure"}, {Kind: "drop"}, {DelayMs: 20000}, {StrayLine: true}}

func (p *c04) Gen(seed uint64, i int, tier string) (any, bool) {
	nCfg, nRandom := 60, 60000
	if tier == "thorough" {
		nCfg, nRandom = 200, 200000
	}
	// layout: for each configuration all singles (and, thorough, all pairs); then random scripts
	idx := i
	for c := 0; c < nCfg; c++ {
		sc, ps := c04Config(seed, c)
		nS := len(ps)*len(c04Kinds) + 1
		if idx < nS {
			if idx > 0 {
				j := idx - 1
				pos := ps[j/len(c04Kinds)]
				sc.Server.Rules = []refsmtpd.Rule{{Verb: pos.verb, Nth: pos.nth, Action: c04Kinds[j%len(c04Kinds)]}}
			}
			sc.Sched = sim.Derive(seed, 4, uint64(c), uint64(idx))
			sc.Label += "/single"
			return sc, true
		}
		idx -= nS
		if tier == "thorough" {
			np := len(ps) * (len(ps) - 1) / 2 * len(c04Kinds) * len(c04Kinds)
			if idx < np {
				k := idx % (len(c04Kinds) * len(c04Kinds))
				pair := idx / (len(c04Kinds) * len(c04Kinds))
				// unrank the pair (a<b)
				a := 0
				for pair >= len(ps)-1-a {
					pair -= len(ps) - 1 - a
					a++
				}
				b := a + 1 + pair
				sc.Server.Rules = []refsmtpd.Rule{
					{Verb: ps[a].verb, Nth: ps[a].nth, Action: c04Kinds[k/len(c04Kinds)]},
					{Verb: ps[b].verb, Nth: ps[b].nth, Action: c04Kinds[k%len(c04Kinds)]}}
				sc.Sched = sim.Derive(seed, 4, uint64(c), uint64(idx), 2)
				sc.Label += "/pair"
				return sc, true
			}
			idx -= np
		}
	}
	if idx >= nRandom {
		return nil, false
	}
	r := sim.NewRand(sim.Derive(seed, 4, 999, uint64(idx)))
	sc, ps := c04Config(seed, 1000+idx)
	n := 1 + r.Intn(5)
	for k := 0; k < n; k++ {
		pos := sim.Pick(r, ps)
		a := sim.Pick(r, c04Kinds)
		if a.Code != 0 && r.Chance(1, 2) {
			a.Code = a.Code/100*100 + r.Intn(60)
		}
		sc.Server.Rules = append(sc.Server.Rules, refsmtpd.Rule{Verb: pos.verb, Nth: pos.nth, Action: a})
	}
	if sc.Client.AuthType != "" && r.Chance(1, 4) {
		// a challenge the mechanism cannot continue from: the exchange has to be cancelled
		// ("*") before anything else is said
		sc.Server.Rules = append(sc.Server.Rules, refsmtpd.Rule{Verb: sim.Pick(r, []string{"AUTH", "AUTHRESP"}), Nth: 1, Action: refsmtpd.Action{Kind: "raw", Code: 334, Text: "b25lIG1vcmUgdGhpbmc/"}})
	}
	if r.Chance(1, 3) {
		// a recipient accepted with 251/252 is accepted (RFC 5321 3.4, 3.5.3): with and without
		// DSN parameters on the command
		sc.Server.Rules = append(sc.Server.Rules, refsmtpd.Rule{Verb: "RCPT", Nth: 1 + r.Intn(3), Action: refsmtpd.Action{Code: sim.Pick(r, []int{251, 252}), Text: "user not local; will forward"}})
	}
	sc.Sched = sim.Derive(seed, 4, 998, uint64(idx))
	sc.Label += "/random"
	if sc.Op == "dialandsend" && r.Chance(1, 5) {
		// the Client is used for a second DialAndSend, and the peer it reaches then advertises
		// other capabilities than the first one did: what was learnt on the first connection
		// says nothing about the second
		sc.Op = "dialandsend2"
		sc.Batches = append(sc.Batches, []MsgSpec{SimpleMsg("again", "z@dest.example")})
		second := sc.Server
		second.Rules = nil
		var caps []string
		for _, c := range []string{"8BITMIME", "SMTPUTF8", "DSN", "ENHANCEDSTATUSCODES"} {
			if r.Chance(1, 2) {
				caps = append(caps, c)
			}
		}
		if r.Chance(1, 3) {
			caps = append(caps, authCaps("PLAIN", "LOGIN"))
		}
		second.Caps, second.UseCapsTLS, second.CapsTLS = caps, false, nil
		if sc.Client.TLSPolicy == "mandatory" {
			second.Caps = append(second.Caps, "STARTTLS")
		}
		sc.Second = &second
		sc.Label += "/second-peer-differs"
	}
	return sc, true
}

var tokenRe = regexp.MustCompile(`TK\d+KT`)

// c04Judged lists the observation classes that belong to this property (syntax observations
// about addresses belong to C05 and cannot occur with this workload's plain addresses anyway).
func c04Judged(obs string) bool {
	return true
}

func (p *c04) Exec(t *testing.T, scAny any) Outcome {
	sc := scAny.(*SendScenario)
	var out Outcome
	run := ExecSend(t, sc, nil)
	run.fill(&out)
	if out.Infra != "" {
		return out
	}
	h := run.Env.Srv.H
	for _, c := range run.Env.Calls {
		if c.Panic != nil {
			out.violate("C04:panic:"+c.Name, "%s panicked: %v\n%s", c.Name, c.Panic, c.PanicStack)
		}
	}
	cmds := 0
	var seq []string
	for _, e := range h.Events {
		switch e.Kind {
		case "cmd":
			cmds++
			seq = append(seq, e.Verb)
		case "reply":
			cls := "ok"
			switch {
			case e.Action == "drop":
				cls = "drop"
			case e.Code >= 500:
				cls = "5"
			case e.Code >= 400:
				cls = "4"
			}
			seq = append(seq, cls)
		case "obs":
			if e.Obs == "auth-cancel-after-final-reply" {
				// inherited net/smtp behaviour pinned by go-mail's own tests; not one of the
				// clauses of the statement (DESIGN.md section 5/C04)
				out.stat("probe.auth-cancel-after-final-reply-not-judged", 1)
				continue
			}
			tag := e.Obs
			if i := strings.Index(tag, ":"); i >= 0 && strings.HasPrefix(tag, "syntax") {
				tag = "syntax"
			}
			out.violate("C04:illegal:"+tag, "the reference server observed %q in state %s on line %q (script %s)", e.Obs, e.State, e.Line, scriptSig(sc.Server.Rules))
		}
	}
	for _, later := range run.Env.Later {
		// the second connection reaches another peer: its observations count as well
		for _, e := range later.H.Events {
			if e.Kind == "obs" && e.Obs != "auth-cancel-after-final-reply" {
				tag := e.Obs
				if i := strings.Index(tag, ":"); i >= 0 && strings.HasPrefix(tag, "syntax") {
					tag = "syntax"
				}
				out.violate("C04:illegal:"+tag+":second-connection", "on the second connection of the Client the reference server observed %q in state %s on line %q", e.Obs, e.State, e.Line)
			}
		}
		out.stat("probe.second-connection-to-another-peer", 1)
	}
	// 8bit messages must be refused locally when 8BITMIME is not in the latest EHLO reply
	encOfTok := map[string]string{}
	for _, b := range sc.Batches {
		for _, m := range b {
			encOfTok[m.Token] = m.Enc
			if len(m.Parts) > 0 && m.Parts[0].Enc == "8bit" {
				encOfTok[m.Token] = "8bit"
			}
			for _, f := range m.Attach {
				if f.Enc == "8bit" {
					encOfTok[m.Token] = "8bit"
				}
			}
		}
	}
	for _, e := range h.Events {
		if e.Kind == "cmd" && e.Verb == "MAIL" && e.Cmd != nil && e.Cmd.Path != nil {
			tok := strings.TrimPrefix(e.Cmd.Path.Local, "sender-")
			if encOfTok[tok] == "8bit" && !strings.Contains(","+e.Ext+",", ",8BITMIME,") {
				out.violate("C04:8bit-without-8BITMIME", "message %s has 8bit encoding, the latest EHLO reply did not offer 8BITMIME (extensions in force: %q), yet MAIL was sent: %q", tok, e.Ext, e.Line)
			}
			// ... and when it is sent, the transaction has to be declared 8bit (RFC 6152 section 3):
			// the client's two views of one EHLO reply ("may I send it" / "what do I put on
			// MAIL") must agree however the server spelled the keyword
			if encOfTok[tok] == "8bit" && !strings.Contains(strings.ToUpper(e.Line), " BODY=8BITMIME") {
				out.violate("C04:8bit-in-a-transaction-declared-7bit", "message %s has 8bit encoding and MAIL was sent without BODY=8BITMIME (extensions in force: %q): %q", tok, e.Ext, e.Line)
			}
		}
	}
	// attribution
	if len(run.States) > 0 {
		segs, _ := segments(h)
		tokOwner := map[string]string{}
		for _, e := range h.Events {
			_ = e
		}
		// tokens of replies per message segment; replies before the first MAIL (greeting, EHLO, NOOP)
		// belong to no message
		var cur string
		for _, e := range h.Events {
			if e.Kind == "cmd" && e.Verb == "MAIL" && e.Cmd != nil && e.Cmd.Path != nil {
				cur = strings.TrimPrefix(e.Cmd.Path.Local, "sender-")
			}
			if e.Kind == "reply" && e.Token != "" {
				tokOwner[e.Token] = cur
			}
		}
		for mi, b := range run.Built[0] {
			st := run.States[0][mi]
			if st.SE == nil {
				continue
			}
			text := st.SE.Error()
			toks := tokenRe.FindAllString(text, -1)
			for _, tk := range toks {
				own, known := tokOwner[tk]
				if !known {
					continue
				}
				if own != b.Spec.Token {
					out.violate("C04:attribution:foreign-reply", "the error of message %s (%q) carries reply %s, which the server sent in answer to a command of %q", b.Spec.Token, text, tk, own)
				}
			}
			// the first code-bearing entry must be the reply to the failing step of this message
			seg := segs[b.Spec.Token]
			if seg != nil && len(toks) > 0 {
				var first *refsmtpd.Event
				switch {
				case seg.mail != nil && seg.mail.Code >= 400:
					first = seg.mail
				default:
					for i := range seg.rcpts {
						if seg.rcpts[i].reply.Code >= 400 {
							first = &seg.rcpts[i].reply
							break
						}
					}
					if first == nil && seg.data != nil && seg.data.Code >= 400 {
						first = seg.data
					}
					if first == nil && seg.eod != nil && seg.eod.Code >= 400 {
						first = seg.eod
					}
				}
				if first != nil && first.Token != "" && toks[0] != first.Token {
					out.violate("C04:attribution:wrong-step:"+first.Verb, "message %s failed at %s (reply %s, %d), but the first reply named in its error %q is %s", b.Spec.Token, first.Verb, first.Token, first.Code, text, toks[0])
				}
			}
		}
	}
	out.Key = sc.Label + "|" + strings.Join(seq, ",")
	out.Nontrivial = cmds > 2 && len(sc.Server.Rules) > 0
	out.stat("commands", cmds)
	return out
}

func (p *c04) Shrink(scAny any) []any {
	sc := scAny.(*SendScenario)
	var out []any
	for i := range sc.Server.Rules {
		c := *sc
		c.Server.Rules = append(append([]refsmtpd.Rule(nil), sc.Server.Rules[:i]...), sc.Server.Rules[i+1:]...)
		out = append(out, &c)
	}
	if len(sc.Batches) > 0 && len(sc.Batches[0]) > 1 {
		for i := range sc.Batches[0] {
			c := *sc
			b := append(append([]MsgSpec(nil), sc.Batches[0][:i]...), sc.Batches[0][i+1:]...)
			c.Batches = [][]MsgSpec{b}
			out = append(out, &c)
		}
	}
	if sc.Client.DSN {
		c := *sc
		c.Client.DSN, c.Client.DSNRet, c.Client.DSNNotify = false, "", nil
		out = append(out, &c)
	}
	if sc.Client.AuthType != "" {
		c := *sc
		c.Client.AuthType = ""
		out = append(out, &c)
	}
	if sc.Client.TLSPolicy != "none" {
		c := *sc
		c.Client.TLSPolicy = "none"
		out = append(out, &c)
	}
	if sc.Server.UseCapsTLS {
		c := *sc
		c.Server.UseCapsTLS, c.Server.CapsTLS = false, nil
		out = append(out, &c)
	}
	return out
}

func (p *c04) Info() PropInfo {
	return PropInfo{
		Rule: "per seeded configuration (capability subset of {8BITMIME, SMTPUTF8, DSN, ENHANCEDSTATUSCODES, STARTTLS, AUTH}, optionally a different set after STARTTLS, EHLO refused, DSN options, WithoutNoop, TLS policy, PLAIN auth, 1..3 messages x 1..3 recipients with drawn encodings, in one batch of eight a message whose body writer fails half way, a nil message, a message without sender or a message without any recipient): the fault-free script, every single-fault script (each command position x {451, 550, disconnect, a positive reply that arrives after the client's timeout}); thorough adds every pair of faults; then sampled scripts with 1..5 faults on fresh configurations, a fifth of the DialAndSend ones followed by a second DialAndSend that reaches a peer with other capabilities. Non-trivial = a fault is scripted and more than two commands were seen; distinct = distinct (configuration, sequence of command verbs and reply classes)",
		Assumptions: []string{"the reference automaton follows RFC 5321 section 4.1.4 with Postfix-like strictness: a refused DATA leaves the transaction open",
			"part- or file-level 8bit is not judged, only the message encoding (the statement says '8bit messages')"},
		Real:        []string{"go-mail Client (dial, TLS, auth, send, reset), smtp.Client", "net/textproto", "crypto/tls"},
		Stubbed:     []string{"TCP (sim.Pipe)", "SMTP server (refsmtpd automaton)", "clock", "crypto/rand"},
		Exhaustive:  func(string) bool { return false },
		QuickBudget: 100 * time.Second, ThoroughBudget: 25 * time.Minute,
	}
}
