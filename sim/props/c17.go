package props

import (
	"fmt"
	"strings"
	"testing"
	"time"

	"verif/sim/refsmtpd"
	"verif/sim/sim"
)

// C17 — Every network operation is bounded by the configured timeout.
//
// Enumerated: one scenario per position at which the server goes silent while holding the
// connection open — every server→client message of the dial and send dialogues (greeting, EHLO
// reply, STARTTLS reply, byte positions inside the TLS handshake flights, post-TLS EHLO, every
// AUTH step, NOOP, MAIL, each RCPT, 354, end-of-data reply, RSET, QUIT), each at {nothing of the
// message arrives, half of it arrives, server stops entirely}, plus client→server stalls (the
// server stops reading, inside the content and before commands) — for DialWithContext,
// DialAndSend, Send and Reset, × TLS mode × auth class, with randomised timeouts.
//
// Oracle on the virtual clock: every DialWithContext/DialAndSend/Send/Reset call that is in
// progress at, or starts after, the instant Ts at which the peer went silent has returned by
// max(Ts, start of call) + timeout + 1 ms. A call still blocked when nothing can ever happen
// again (kernel quiescence) blocks indefinitely.

type c17 struct{ cache map[string][]SendScenario }

func init() { register(&c17{cache: map[string][]SendScenario{}}) }

func (*c17) ID() string                     { return "C17" }
func (*c17) Level() string                  { return "fault_enumeration" }
func (*c17) Decode(raw []byte) (any, error) { return decodeInto[SendScenario](raw) }

func bigMsg(token string, n int) MsgSpec {
	m := SimpleMsg(token, "a@dest.example", "b@dest.example")
	var b strings.Builder
	for b.Len() < n {
		b.WriteString("this is a line of the large body that has to pass the send window of the simulated transport\r\n")
	}
	m.Parts[0].Content.Data = []byte(b.String())
	return m
}

func (p *c17) build(seed uint64, tier string) []SendScenario {
	key := fmt.Sprintf("%d/%s", seed, tier)
	if l, ok := p.cache[key]; ok {
		return l
	}
	r := sim.NewRand(sim.Derive(seed, 17))
	var out []SendScenario
	idx := 0
	tlsModes := []string{"none", "mandatory"}
	auths := []string{"", "PLAIN", "LOGIN", "SCRAM-SHA-256"}
	if tier == "thorough" {
		tlsModes = []string{"none", "mandatory", "opportunistic"}
		auths = []string{"", "PLAIN", "LOGIN", "SCRAM-SHA-256", "CRAM-MD5", "XOAUTH2", "AUTODISCOVER", "SCRAM-SHA-1-PLUS"}
	}
	for _, tlsMode := range tlsModes {
		for _, auth := range auths {
			if strings.HasSuffix(auth, "PLUS") && tlsMode == "none" {
				continue
			}
			for _, op := range []string{"dial", "dialandsend", "send", "reset"} {
				base := func(label string) SendScenario {
					idx++
					caps := []string{"8BITMIME", "ENHANCEDSTATUSCODES", "STARTTLS", authCaps(allMechs...)}
					to := 1000 + r.Intn(29000)
					c := ClientCfg{TLSPolicy: tlsMode, AuthType: auth, User: "user-c17", Pass: "pass-c17-Zq8", TimeoutMs: to}
					if tlsMode == "none" && (auth == "PLAIN" || auth == "LOGIN") {
						c.AuthType = auth + "-NOENC"
					}
					s := SendScenario{Label: label, Client: c, Op: op, Sched: sim.Derive(seed, 17, uint64(idx)),
						Server: refsmtpd.Config{Caps: caps, TLS: refsmtpd.TLSCfg{Cert: "valid"},
							Auth: refsmtpd.AuthCfg{User: "user-c17", Pass: "pass-c17-Zq8", Salt: []byte("saltsalt"), Iter: 16}}}
					if r.Chance(1, 2) {
						s.Server.TLS.Version = sim.Pick(r, []string{"1.2", "1.3"})
					}
					if r.Chance(1, 4) {
						// without the NOOP probe the operation's own first command is the one that
						// meets the silent peer
						s.Client.NoNoop = true
					}
					if r.Chance(1, 3) {
						// the caller's context has a deadline of its own, later than the configured
						// timeout: the bound stays the configured timeout
						s.CtxMs = to + 1000 + r.Intn(120000)
					}
					switch op {
					case "dialandsend":
						s.Batches = [][]MsgSpec{{SimpleMsg("m1", "a@dest.example", "b@dest.example"), SimpleMsg("m2")}}
					case "send":
						s.Batches = [][]MsgSpec{{SimpleMsg("m1", "a@dest.example", "b@dest.example"), SimpleMsg("m2")}, {SimpleMsg("m3")}}
					}
					return s
				}
				usesTLS := tlsMode != "none"
				type pos struct {
					label, verb string
					nth         int
				}
				var ps []pos
				add := func(l, v string, n int) { ps = append(ps, pos{l, v, n}) }
				add("GREET", "GREET", 1)
				add("EHLO", "EHLO", 1)
				if usesTLS {
					add("STARTTLS", "STARTTLS", 1)
					add("EHLO-after-TLS", "EHLO", 2)
				}
				if auth != "" {
					add("AUTH", "AUTH", 1)
					if auth != "PLAIN" && auth != "XOAUTH2" {
						add("AUTHRESP-1", "AUTHRESP", 1)
					}
					if auth == "LOGIN" || strings.HasPrefix(auth, "SCRAM") || auth == "AUTODISCOVER" {
						add("AUTHRESP-2", "AUTHRESP", 2)
					}
					if strings.HasPrefix(auth, "SCRAM") || auth == "AUTODISCOVER" {
						add("AUTHRESP-3", "AUTHRESP", 3)
					}
				}
				switch op {
				case "dialandsend", "send":
					add("NOOP-1", "NOOP", 1)
					add("MAIL-1", "MAIL", 1)
					add("RCPT-1", "RCPT", 1)
					add("RCPT-2", "RCPT", 2)
					add("DATA-1", "DATA", 1)
					add("EOD-1", "EOD", 1)
					add("NOOP-2", "NOOP", 2)
					add("RSET-1", "RSET", 1)
					add("MAIL-2", "MAIL", 2)
					add("EOD-2", "EOD", 2)
					if op == "send" {
						add("NOOP-4", "NOOP", 4) // first NOOP of the second Send call
						add("MAIL-3", "MAIL", 3)
					}
					add("QUIT", "QUIT", 1)
				case "reset":
					add("NOOP-1", "NOOP", 1)
					add("RSET-1", "RSET", 1)
				}
				if usesTLS && (op == "dial" || op == "dialandsend") {
					// the first dial fails and the connection is made through the fallback port
					for _, ps1 := range ps {
						s := base("fallback:" + ps1.label + "/stall")
						s.Client.FallbackPort = true
						s.Client.TLSPolicy = "opportunistic" // WithTLSPortPolicy sets a fallback port for this policy only
						s.DialFail = 1
						s.Server.Rules = []refsmtpd.Rule{{Verb: ps1.verb, Nth: ps1.nth, Action: refsmtpd.Action{Kind: "stall"}}}
						out = append(out, s)
					}
				}
				for _, ps1 := range ps {
					for _, how := range []string{"stall", "start", "mid"} {
						s := base(ps1.label + "/" + how)
						a := refsmtpd.Action{}
						if how == "stall" {
							a.Kind = "stall"
						} else {
							a.StallWhere = how
						}
						s.Server.Rules = []refsmtpd.Rule{{Verb: ps1.verb, Nth: ps1.nth, Action: a}}
						out = append(out, s)
					}
				}
				if usesTLS {
					// inside the TLS handshake flights: the STARTTLS reply arrives, then k more bytes
					extras := []int64{0, 1, 5, 6, 60, 130, 400, 700, 1000, 1300}
					if tier == "thorough" {
						extras = nil
						for k := int64(0); k < 1800; k += 5 {
							extras = append(extras, k)
						}
					}
					for _, k := range extras {
						s := base(fmt.Sprintf("TLS-handshake+%d", k))
						s.Server.Rules = []refsmtpd.Rule{{Verb: "STARTTLS", Nth: 1, Action: refsmtpd.Action{StallWhere: "end", StallExtra: k}}}
						out = append(out, s)
					}
					s := base("TLS-handshake/stall")
					s.Server.TLS.Cert = "stall"
					out = append(out, s)
				}
				if op == "dialandsend" {
					// nothing to send: the call is dial + QUIT, and the server goes silent at QUIT
					for _, how := range []string{"stall", "start"} {
						s := base("empty-batch:QUIT/" + how)
						s.Batches = [][]MsgSpec{{}}
						a := refsmtpd.Action{}
						if how == "stall" {
							a.Kind = "stall"
						} else {
							a.StallWhere = how
						}
						s.Server.Rules = []refsmtpd.Rule{{Verb: "QUIT", Nth: 1, Action: a}}
						out = append(out, s)
					}
				}
				if op == "dial" {
					// the Client is dialled again while its earlier session is still open, and the
					// server of that earlier session has gone silent: whatever the Client does
					// about the old session, the second DialWithContext is bounded as well
					for _, verb := range []string{"QUIT", "NOOP", "RSET"} {
						s := base("redial:old-session-silent-at-" + verb + "/stall")
						s.Op = "dial-redial-send"
						s.Batches = [][]MsgSpec{{SimpleMsg("m1", "a@dest.example")}}
						s.Server.Rules = []refsmtpd.Rule{{Verb: verb, Nth: 1, Conn: 1, Action: refsmtpd.Action{Kind: "stall"}}}
						out = append(out, s)
					}
				}
				// the peer never answers the dial function itself (a dialer that negotiates before
				// it returns): the only bound it has is the context the Client hands it
				if op == "dial" || op == "dialandsend" {
					s := base("dial-function-blocks")
					s.DialBlocks = true
					out = append(out, s)
				}
				// the server stops reading
				if op == "dialandsend" || op == "send" {
					// ... right after its 354: the content (of any size relative to the client's
					// write buffer and to the send window) is written into a connection nobody reads
					for _, size := range []int{100, 1500, 3500, 5000, 20000} {
						for _, win := range []int{64, 1024, 4096, 65536} {
							s := base(fmt.Sprintf("stop-reading-after-354/size=%d,win=%d", size, win))
							s.Batches = [][]MsgSpec{{bigMsg("big", size)}}
							s.Conn = sim.ConnFaults{Window: win}
							s.Server.Rules = []refsmtpd.Rule{{Verb: "DATA", Nth: 1, Action: refsmtpd.Action{StopReading: true}}}
							out = append(out, s)
						}
					}
					// ... the same with a multipart message (alternative part and attachment): its
					// content reaches the connection through the multipart writer's own Write
					for _, size := range []int{5000, 20000, 70000} {
						for _, win := range []int{1024, 65536} {
							s := base(fmt.Sprintf("stop-reading-after-354/multipart/size=%d,win=%d", size, win))
							m := bigMsg("big", size)
							m.Parts = append(m.Parts, PartSpec{Type: "text/html", Content: ContentSpec{Data: m.Parts[0].Content.Data}})
							m.Attach = []FileSpec{{Name: "big.bin", Content: ContentSpec{Data: m.Parts[0].Content.Data}}}
							s.Batches = [][]MsgSpec{{m}}
							s.Conn = sim.ConnFaults{Window: win}
							s.Server.Rules = []refsmtpd.Rule{{Verb: "DATA", Nth: 1, Action: refsmtpd.Action{StopReading: true}}}
							out = append(out, s)
						}
					}
					for _, off := range []int64{20, 6000, 30000} {
						s := base(fmt.Sprintf("c2s-stall@%d", off))
						s.Batches = [][]MsgSpec{{bigMsg("big", 60000)}}
						s.Conn = sim.ConnFaults{C2SStall: true, C2SStallAt: off + int64(r.Intn(200)), Window: 4096 << uint(r.Intn(3))}
						if !usesTLS {
							out = append(out, s)
						} else if off > 20 {
							// offsets count ciphertext too; keep them past the handshake
							s.Conn.C2SStallAt += 3000
							out = append(out, s)
						}
					}
				} else {
					s := base("c2s-stall@10")
					s.Conn = sim.ConnFaults{C2SStall: true, C2SStallAt: 10}
					out = append(out, s)
				}
			}
		}
	}
	if DialSeam {
		// go-mail's own dialers: the silent peer meets net.Dialer + STARTTLS, the tls.Dialer of
		// implicit TLS (whose handshake only the dial context bounds), and the fallback port
		for _, mode := range []string{"mandatory", "implicit", "implicit-fallback"} {
			for _, auth := range []string{"", "LOGIN", "SCRAM-SHA-256"} {
				for _, op := range []string{"dial", "dialandsend"} {
					base := func(label string) SendScenario {
						idx++
						to := 1000 + r.Intn(29000)
						c := ClientCfg{TLSPolicy: mode, AuthType: auth, User: "user-c17", Pass: "pass-c17-Zq8", TimeoutMs: to, DefaultDialer: true}
						s := SendScenario{Label: "defaultdialer:" + mode + ":" + label, Client: c, Op: op, Sched: sim.Derive(seed, 17, uint64(idx)),
							Server: refsmtpd.Config{Caps: []string{"8BITMIME", "STARTTLS", authCaps(allMechs...)}, TLS: refsmtpd.TLSCfg{Cert: "valid"},
								Auth: refsmtpd.AuthCfg{User: "user-c17", Pass: "pass-c17-Zq8", Salt: []byte("saltsalt"), Iter: 16}}}
						if strings.HasPrefix(mode, "implicit") {
							s.Client.TLSPolicy = "implicit"
							s.Server.ImplicitTLS = true
							s.Server.Caps = []string{"8BITMIME", authCaps(allMechs...)}
						}
						if mode == "implicit-fallback" {
							s.Client.SSLPort, s.DialFail = true, 1
						}
						if r.Chance(1, 3) {
							s.CtxMs = to + 1000 + r.Intn(120000)
						}
						if op == "dialandsend" {
							s.Batches = [][]MsgSpec{{SimpleMsg("m1", "a@dest.example", "b@dest.example")}}
						}
						return s
					}
					type pos struct {
						label, verb string
						nth         int
					}
					ps := []pos{{"GREET", "GREET", 1}, {"EHLO", "EHLO", 1}}
					if mode == "mandatory" {
						ps = append(ps, pos{"STARTTLS", "STARTTLS", 1}, pos{"EHLO-after-TLS", "EHLO", 2})
					}
					if auth != "" {
						ps = append(ps, pos{"AUTH", "AUTH", 1}, pos{"AUTHRESP-1", "AUTHRESP", 1})
					}
					if op == "dialandsend" {
						ps = append(ps, pos{"NOOP-1", "NOOP", 1}, pos{"MAIL-1", "MAIL", 1}, pos{"DATA-1", "DATA", 1}, pos{"EOD-1", "EOD", 1}, pos{"QUIT", "QUIT", 1})
					}
					for _, ps1 := range ps {
						for _, how := range []string{"stall", "mid"} {
							s := base(ps1.label + "/" + how)
							a := refsmtpd.Action{}
							if how == "stall" {
								a.Kind = "stall"
							} else {
								a.StallWhere = how
							}
							s.Server.Rules = []refsmtpd.Rule{{Verb: ps1.verb, Nth: ps1.nth, Action: a}}
							out = append(out, s)
						}
					}
					s := base("TLS-handshake/stall")
					s.Server.TLS.Cert = "stall"
					out = append(out, s)
					if mode != "mandatory" {
						// a plain SMTP peer where TLS was expected: its greeting is no handshake
						// record; a peer that says nothing at all
						s := base("TLS-handshake/peer-silent-plain")
						s.Server.ImplicitTLS = false
						s.Server.Rules = []refsmtpd.Rule{{Verb: "GREET", Nth: 1, Action: refsmtpd.Action{Kind: "stall"}}}
						out = append(out, s)
					}
					s = base("dial-function-blocks")
					s.DialBlocks = true
					out = append(out, s)
				}
			}
		}
	}
	p.cache[key] = out
	return out
}

func (p *c17) Gen(seed uint64, i int, tier string) (any, bool) {
	l := p.build(seed, tier)
	// thorough: the whole enumeration eight times over, each round with its own draws for
	// everything the enumeration leaves open (client configuration swarm, timeouts, contexts,
	// schedules)
	rounds := 1
	if tier == "thorough" {
		rounds = 8
	}
	if len(l) == 0 || i >= len(l)*rounds {
		return nil, false
	}
	if r := i / len(l); r > 0 {
		l2 := p.build(sim.Derive(seed, 17, 777, uint64(r)), tier)
		if i%len(l) >= len(l2) {
			return nil, false
		}
		l = l2
	}
	s := l[i%len(l)]
	return &s, true
}

func stallSite(label string) string {
	// strip the "+k" of handshake offsets so that the tag names the site, not the byte
	if i := strings.Index(label, "+"); i >= 0 {
		return label[:i]
	}
	if i := strings.Index(label, "@"); i >= 0 {
		return label[:i]
	}
	if i := strings.Index(label, "/"); i >= 0 {
		return label[:i]
	}
	return label
}

func (p *c17) Exec(t *testing.T, scAny any) Outcome {
	sc := scAny.(*SendScenario)
	var out Outcome
	run := ExecSend(t, sc, nil)
	run.fill(&out)
	if out.Infra != "" {
		return out
	}
	// when did the peer go silent?
	ts := int64(-1)
	for _, e := range run.Env.Srv.H.Events {
		if e.Kind == "reply" && e.Action == "stall" && ts < 0 {
			ts = e.TimeNs
		}
		if e.Kind == "tls" && strings.HasPrefix(e.Text, "stall") && ts < 0 {
			ts = e.TimeNs
		}
	}
	c2sStalled := false
	for _, pp := range run.Env.Pipes {
		a, b := pp.StallBegan()
		if b >= 0 {
			c2sStalled = true
		}
		for _, v := range []int64{a, b} {
			if v >= 0 && (ts < 0 || v < ts) {
				ts = v
			}
		}
	}
	if sc.DialBlocks && run.Env.Dials > 0 {
		ts = run.Env.DialBlockedAt
	}
	out.Key = sc.Op + "|" + sc.Client.TLSPolicy + "|" + sc.Client.AuthType + "|" + sc.Label
	if ts < 0 {
		out.stat("trivial.stall-never-took-effect", 1)
		return out
	}
	out.Nontrivial = true
	out.stat("probe.stall-took-effect", 1)
	timeout := int64(sc.Client.timeout())
	const eps = int64(time.Millisecond)
	// every call record exists from the moment the call started (a call that never returns
	// has no other trace)
	var calls []*CallRec
	for i := range run.Env.Calls {
		switch run.Env.Calls[i].Name {
		case "DialWithContext", "DialAndSend", "Send", "Reset":
			calls = append(calls, &run.Env.Calls[i])
		}
	}
	judged := 0
	for _, c := range calls {
		if c.Returned && c.EndNs < ts {
			continue // finished before the peer went silent
		}
		judged++
		from := ts
		if c.StartNs > from {
			from = c.StartNs
		}
		bound := from + timeout + eps
		if c2sStalled && sc.Client.TLSPolicy != "none" {
			// Closing a TLS connection whose peer no longer reads costs crypto/tls's fixed
			// close_notify write deadline (5 s, a constant of the standard library); C19 demands
			// that Close, so the constant is part of the slack here.
			bound += int64(5 * time.Second)
		}
		if strings.HasSuffix(sc.Label, "/mid") {
			// The peer stops in the middle of a reply line. bufio.Reader.ReadLine (under
			// net/textproto) hands out the truncated line as a complete one when the deadline
			// expires, so exactly one further step can start and legitimately gets its own
			// timeout from go-mail's per-step deadline. Two timeouts is the bound the statement
			// supports here; everywhere else it is one.
			bound += timeout
		}
		site := stallSite(sc.Label)
		switch {
		case !c.Returned:
			out.stat("probe.blocked-for-ever", 1)
			out.violate(fmt.Sprintf("C17:unbounded:%s:stall=%s", c.Name, site),
				"%s (timeout %v) never returned after the server went silent at %s (t=%v): kernel verdict %s, nothing can ever happen again; unfinished tasks %v (tls=%s auth=%s)",
				c.Name, time.Duration(timeout), sc.Label, time.Duration(ts), run.Res.Verdict, run.Res.Unfinished, sc.Client.TLSPolicy, sc.Client.AuthType)
		case c.EndNs > bound:
			out.violate(fmt.Sprintf("C17:late:%s:stall=%s", c.Name, site),
				"%s (timeout %v) returned %v after the server went silent at %s — later than timeout+1ms (error: %s)",
				c.Name, time.Duration(timeout), time.Duration(c.EndNs-from), sc.Label, errText(c.Err))
		default:
			out.stat("probe.returned-in-time", 1)
			if c.Err != nil && containsAny(c.Err.Error(), "timeout", "deadline") {
				out.stat("probe.timeout-error", 1)
			}
		}
		if c.Panic != nil {
			out.violate("C17:panic:"+c.Name, "%s panicked: %v", c.Name, c.Panic)
		}
	}
	if judged == 0 {
		out.stat("trivial.no-call-overlaps-stall", 1)
		out.Nontrivial = false
	}
	return out
}

func (p *c17) Shrink(scAny any) []any {
	sc := scAny.(*SendScenario)
	var out []any
	if sc.Client.AuthType != "" && !strings.Contains(sc.Label, "AUTH") {
		c := *sc
		c.Client.AuthType = ""
		out = append(out, &c)
	}
	if sc.Client.TLSPolicy != "none" && !strings.Contains(sc.Label, "TLS") {
		c := *sc
		c.Client.TLSPolicy = "none"
		if c.Client.AuthType == "PLAIN" || c.Client.AuthType == "LOGIN" {
			c.Client.AuthType += "-NOENC"
		}
		out = append(out, &c)
	}
	if len(sc.Batches) > 1 {
		c := *sc
		c.Batches = sc.Batches[:1]
		out = append(out, &c)
	}
	if len(sc.Batches) == 1 && len(sc.Batches[0]) > 1 {
		c := *sc
		c.Batches = [][]MsgSpec{sc.Batches[0][:1]}
		out = append(out, &c)
	}
	if sc.Client.TimeoutMs > 1000 {
		c := *sc
		c.Client.TimeoutMs = 1000
		out = append(out, &c)
	}
	return out
}

func (p *c17) Info() PropInfo {
	return PropInfo{
		Rule: "enumeration (thorough: eight rounds of it, each with fresh draws for what the enumeration leaves open): go-mail's own dialers as well (no WithDialContextFunc: net.Dialer + STARTTLS, tls.Dialer for implicit TLS whose handshake only the dial context bounds, WithSSLPort(true) with a failing first dial, a plain or silent peer where TLS was expected); {DialWithContext, DialAndSend, Send (two calls), Reset} x TLS mode x auth class x silent point (each server message of the dialogue at {server stops, nothing arrives, half arrives}; byte offsets inside the TLS handshake flights; server stops reading before a command / inside the content with small send windows; server stops reading right after its 354 x content size {100 B .. 20 kB, around the client's 4 KiB write buffer} x send window {64 B .. 64 KiB}); a third of the calls carry a caller context whose own deadline lies later than the timeout; a quarter of the Clients use WithoutNoop; a dial function that blocks until its context is done (DialWithContext, DialAndSend); DialAndSend of an empty batch with a silent QUIT; a second DialWithContext while the server of the earlier, still open session is silent; timeouts drawn from 1..30 s; a case is non-trivial when the stall took effect while or before a judged call ran; distinct = distinct (op, TLS, auth, silent point)",
		Assumptions: []string{"a peer that stops in the middle of a plain-text reply line may cost two timeouts instead of one: the standard library (bufio.ReadLine under net/textproto) returns the truncated line as a complete reply when the deadline expires, after which one more step starts with its own timeout",
			"when the peer stops reading on a TLS connection, 5 s are added to the bound: crypto/tls bounds the close_notify write of Close by a fixed 5 s deadline, and C19 requires the Close",
			"the bound is measured on the simulated clock from the instant the first suppressed byte was written (or the server stopped) to the return of the call; slack 1 ms of virtual time for kernel park ticks",
			"slow-drip peers are outside the statement (it speaks of a silent server) and are not judged"},
		Real:            []string{"github.com/wneessen/go-mail client and smtp packages", "net/textproto", "crypto/tls on both ends", "context deadlines, net.Conn deadlines (virtual clock)"},
		Stubbed:         []string{"TCP (sim.Pipe with send window)", "SMTP server (refsmtpd)", "clock (synctest bubble)", "the socket under go-mail's default dialers (type names net.Dialer / tls.Dialer rewritten to simhook.NetDialer / simhook.TLSDialer in the scratch copy; TLSDialer.DialContext follows crypto/tls.(*Dialer).DialContext step by step, 25 lines)"},
		NotCovered:      []string{"unix sockets", "a resolver or connect(2) that hangs inside the operating system (the simulated dial returns at once or blocks until its context is done)"},
		Exhaustive:      func(string) bool { return true },
		HangIsViolation: true,
		QuickBudget:     90 * time.Second, ThoroughBudget: 20 * time.Minute,
	}
}
