//go:build simhook || simdial

package props

import (
	mail "github.com/wneessen/go-mail"
	"github.com/wneessen/go-mail/simhook"
)

// DialSeam: this binary was built from a scratch copy of go-mail whose default dialers
// (net.Dialer / tls.Dialer in the root package) ask the simulation for their connections.
const DialSeam = true

// setDefaultDial attaches the simulated network to go-mail's default dialers (nil detaches it).
func setDefaultDial(dial mail.DialContextFunc) bool {
	simhook.Dial = dial
	return true
}
