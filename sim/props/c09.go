package props

import (
	"bytes"
	"errors"
	"fmt"
	"io"
	"os"
	"path/filepath"
	"runtime/debug"
	"strings"
	"sync/atomic"
	"testing"
	"time"

	mail "github.com/wneessen/go-mail"

	"verif/sim/sim"
)

// C09 — EML parsing is total.
//
// Framed where fault injection applies: an EML stored on a simulated disk and read back through a
// simulated reader. Corpus: renderings produced by the real builder (all shapes), the fixtures in
// /repo/testdata, and pure random bytes. Storage faults: truncation, torn write (prefix of A +
// suffix of B), lost range, duplicated range, zeroed block, byte and bit flips, CRLF→LF damage,
// emptied or re-quoted header parameters — offsets biased to token boundaries (; = " : - CR LF)
// in header regions. Reader faults: arbitrary chunk sizes, (n>0, io.EOF), error at an offset,
// short runs of (0, nil). Oracle: no panic, and the parse returns within a wall-clock watchdog.

type C09Mut struct {
	Kind string `json:"kind"` // truncate | torn | drop | dup | zero | flip | bitflip | lf | emptyparam | insert
	Off  int    `json:"off"`
	Len  int    `json:"len,omitempty"`
	Arg  string `json:"arg,omitempty"`
}

type C09Reader struct {
	Chunks      []int `json:"chunks,omitempty"`
	EOFWithData bool  `json:"eofWithData,omitempty"`
	ErrAt       int   `json:"errAt,omitempty"` // -1/0 with ErrSet=false: none
	ErrSet      bool  `json:"errSet,omitempty"`
	ZeroReads   int   `json:"zeroReads,omitempty"`
	// ErrKind: what the failing reader returns from ErrAt on, every time it is asked again:
	// "" a plain error; "timeout" an error that says Timeout() and Temporary() (an expired read
	// deadline of a connection the message is read from); "unexpected-eof" io.ErrUnexpectedEOF
	ErrKind string `json:"errKind,omitempty"`
}

type C09Case struct {
	Muts   []C09Mut  `json:"muts,omitempty"`
	Reader C09Reader `json:"reader"`
	Entry  string    `json:"entry"` // reader | string | file
}

type C09Scenario struct {
	Base    string   `json:"base"` // render | fixture:<file> | random
	Msg     *MsgSpec `json:"msg,omitempty"`
	Other   *MsgSpec `json:"other,omitempty"` // second stored message for torn writes
	RandLen int      `json:"randLen,omitempty"`
	Seed    uint64   `json:"seed"`
	NCases  int      `json:"ncases,omitempty"` // derive this many cases from Seed (enumeration mode)
	Case    *C09Case `json:"case,omitempty"`   // a single pinned case (replay)
	// Prior: the case this process parsed just before Case (replay runs it first, unjudged):
	// what a parse leaves behind in the package is part of the history
	Prior *C09Case `json:"prior,omitempty"`
}

type c09 struct{}

func init() { register(&c09{}) }

func (*c09) ID() string                     { return "C09" }
func (*c09) Level() string                  { return "exploration" }
func (*c09) Decode(raw []byte) (any, error) { return decodeInto[C09Scenario](raw) }

var c09Fixtures = []string{"RFC5322-A1-1.eml", "RFC5322-A1-1-invalid-from.eml", "invoice.eml"}

func (p *c09) Gen(seed uint64, i int, tier string) (any, bool) {
	n, per := 3000, 300
	if tier == "thorough" {
		n, per = 100000, 300
	}
	if i >= n {
		return nil, false
	}
	r := sim.NewRand(sim.Derive(seed, 9, uint64(i)))
	sc := &C09Scenario{Seed: sim.Derive(seed, 9, uint64(i), 1), NCases: per}
	switch {
	case i%10 == 0:
		sc.Base = "fixture:" + c09Fixtures[(i/10)%len(c09Fixtures)]
	case i%10 == 1:
		sc.Base = "random"
		sc.RandLen = r.Intn(3000)
	case i%10 == 2 && i%20 == 2:
		// containers nested deeply (forwarded forwards, a generator gone wrong): RandLen is the
		// depth, the container types are drawn from the seed
		sc.Base = "nested"
		sc.RandLen = sim.Pick(r, []int{3, 8, 16, 24, 32, 48, 64, 100})
	case i%10 == 2:
		// a stored message with a large body (70..260 KiB, plain text or one base64 attachment),
		// parsed unharmed and damaged in turn by one process: RandLen is the size in KiB
		sc.Base = "large"
		sc.RandLen = sim.Pick(r, []int{70, 100, 130, 200, 260})
		sc.NCases = 16
	default:
		sc.Base = "render"
		o := ShapeOpts{MaxAlt: 2, MaxEmbed: 2, MaxAttach: 2, MaxContent: 150, CRLFOnly: true,
			Encs: []string{"quoted-printable", "base64", "8bit", "7bit"}, FileEncs: []string{"", "base64"}, Sources: []string{"writer"}}
		m := GenMsg(r, fmt.Sprintf("e%d", i), o)
		if r.Chance(1, 3) {
			m.Attach = append(m.Attach, FileSpec{Name: sim.Pick(r, []string{"a", "", "x y;z=1.txt", `q"uote.bin`, "ünï.dat"}), Content: ContentSpec{Data: []byte("data")}})
		}
		m2 := GenMsg(r, fmt.Sprintf("f%d", i), o)
		sc.Msg, sc.Other = &m, &m2
	}
	return sc, true
}

// nestedEML writes a legal message whose body is depth multipart containers inside each other
// (alternative, related, mixed), each holding a small text part before and after the inner one.
func nestedEML(r *sim.Rand, depth int) []byte {
	var b strings.Builder
	b.WriteString("Date: Wed, 01 Jan 2025 10:00:00 +0000\r\nFrom: <a@origin.example>\r\nTo: <b@dest.example>\r\nSubject: nested\r\nMIME-Version: 1.0\r\n")
	kinds := make([]string, depth)
	for d := range kinds {
		kinds[d] = sim.Pick(r, []string{"alternative", "related", "alternative", "related", "mixed"})
	}
	if r.Chance(1, 2) {
		for d := range kinds {
			kinds[d] = sim.Pick(r, []string{"alternative", "related"})
		}
	}
	for d := 0; d < depth; d++ {
		fmt.Fprintf(&b, "Content-Type: multipart/%s; boundary=\"b%d\"\r\n\r\n", kinds[d], d)
		fmt.Fprintf(&b, "--b%d\r\nContent-Type: text/plain; charset=UTF-8\r\nContent-Transfer-Encoding: 7bit\r\n\r\ntext at level %d\r\n--b%d\r\n", d, d, d)
	}
	b.WriteString("Content-Type: text/html; charset=UTF-8\r\nContent-Transfer-Encoding: quoted-printable\r\n\r\n<p>innermost</p>\r\n")
	for d := depth - 1; d >= 0; d-- {
		fmt.Fprintf(&b, "--b%d--\r\n", d)
	}
	return []byte(b.String())
}

// largeEML writes a legal message of about kib KiB: a single text part, or multipart/mixed with a
// short text and one base64 attachment.
func largeEML(r *sim.Rand, kib int) []byte {
	var b strings.Builder
	b.WriteString("Date: Wed, 01 Jan 2025 10:00:00 +0000\r\nFrom: <a@origin.example>\r\nTo: <b@dest.example>\r\nSubject: large\r\nMIME-Version: 1.0\r\n")
	n := kib * 1024
	if r.Chance(1, 2) {
		b.WriteString("Content-Type: text/plain; charset=UTF-8\r\nContent-Transfer-Encoding: 7bit\r\n\r\n")
		for b.Len() < n {
			b.WriteString("a line of a long report that somebody stored as a message, seventy characters\r\n")
		}
		return []byte(b.String())
	}
	b.WriteString("Content-Type: multipart/mixed; boundary=\"big\"\r\n\r\n--big\r\nContent-Type: text/plain; charset=UTF-8\r\nContent-Transfer-Encoding: quoted-printable\r\n\r\nsee attachment\r\n")
	b.WriteString("--big\r\nContent-Type: application/octet-stream; name=\"big.bin\"\r\nContent-Disposition: attachment; filename=\"big.bin\"\r\nContent-Transfer-Encoding: base64\r\n\r\n")
	for b.Len() < n {
		b.WriteString("QUJDREVGR0hJSktMTU5PUFFSU1RVVldYWVphYmNkZWZnaGlqa2xtbm9wcXJzdHV2d3h5ejAxMjM0\r\n")
	}
	b.WriteString("--big--\r\n")
	return []byte(b.String())
}

// tokenOffsets lists offsets just after header-ish token characters.
func tokenOffsets(b []byte) []int {
	var out []int
	for i, c := range b {
		switch c {
		case ';', '=', '"', ':', '-', '\r', '\n', '<', '>', '/', ',':
			out = append(out, i, i+1)
		}
	}
	return out
}

func genCase(r *sim.Rand, base []byte) C09Case {
	var c C09Case
	c.Entry = sim.Pick(r, []string{"reader", "reader", "string", "file"})
	toks := tokenOffsets(base)
	off := func() int {
		if len(base) == 0 {
			return 0
		}
		if r.Chance(1, 12) {
			return r.Intn(5) // the very first bytes of the file
		}
		if len(toks) > 0 && r.Chance(3, 4) {
			o := sim.Pick(r, toks)
			if o > len(base) {
				o = len(base)
			}
			return o
		}
		return r.Intn(len(base) + 1)
	}
	nm := r.Intn(4)
	if r.Chance(1, 10) {
		nm = 0
	}
	for k := 0; k < nm; k++ {
		m := C09Mut{Kind: sim.Pick(r, []string{"truncate", "torn", "drop", "dup", "zero", "flip", "bitflip", "lf", "emptyparam", "insert", "truncate", "drop", "hdrval", "hdrval", "prefix"}), Off: off()}
		switch m.Kind {
		case "drop", "dup", "zero":
			m.Len = 1 + r.Intn(40)
		case "flip":
			m.Arg = string([]byte{byte(r.Intn(256))})
		case "bitflip":
			m.Len = r.Intn(8)
		case "hdrval":
			m.Arg = sim.Pick(r, []string{"undisclosed-recipients:;", "a:;, b:;", "group: ;", ";", ";;", " ", "", "=", "\"", "<>", "@", "<@>", "a@", "multipart/mixed", "multipart/mixed; boundary=", "multipart/mixed; boundary=\"\"", "text/plain; charset=", "text/plain; =", "; name=x", "attachment; filename", "attachment; filename=;", "inline;;;", "base64;", "=?UTF-8?q?", "=?x?b?=?=", "Mon, 99 Foo 2000", "\x00", "-1", "-46", "99999999999999999999", "0x10", "1e9"})
		case "prefix":
			// what storage and transfer tools put in front of a message: a byte-order mark (whole
			// or cut), an mbox separator line, empty lines
			m.Arg = sim.Pick(r, []string{"\xEF\xBB\xBF", "\xEF\xBB\xBF", "\xEF\xBB", "\xEF", "\xFE\xFF", "\xFF\xFE", "From sender@origin.example Thu Jan  1 00:00:00 1970\r\n", "\r\n", "\n\n", " "})
		case "insert":
			m.Arg = sim.Pick(r, []string{`"`, ";", "=", "; filename=", `; filename=""`, "; filename=x", "\r\n", "\r\n\r\n", "--", "boundary=", "; charset=", "=?UTF-8?q?", ": ", "\x00", "Content-Type: multipart/mixed; boundary=x\r\n",
				// header fields with numbers in them, as other software writes them
				"Content-Length: -1\r\n", "Content-Length: -9223372036854775808\r\n", "Content-Length: 99999999999999999999\r\n", "Content-Length: 0\r\n", "Lines: -5\r\n", "MIME-Version: -1.0\r\n"})
		}
		c.Muts = append(c.Muts, m)
	}
	if r.Chance(1, 2) {
		c.Reader.Chunks = GenChunks(r)
	}
	c.Reader.EOFWithData = r.Chance(1, 4)
	if r.Chance(1, 5) {
		c.Reader.ErrSet = true
		c.Reader.ErrAt = off()
		c.Reader.ErrKind = []string{"", "timeout", "", "unexpected-eof"}[c.Reader.ErrAt%4]
	}
	if r.Chance(1, 8) {
		c.Reader.ZeroReads = 1 + r.Intn(3)
	}
	return c
}

func applyMuts(base, other []byte, muts []C09Mut) []byte {
	b := append([]byte(nil), base...)
	clamp := func(o int) int {
		if o < 0 {
			return 0
		}
		if o > len(b) {
			return len(b)
		}
		return o
	}
	for _, m := range muts {
		o := clamp(m.Off)
		switch m.Kind {
		case "truncate":
			b = b[:o]
		case "prefix":
			b = append([]byte(m.Arg), b...)
		case "torn":
			if o < len(other) {
				b = append(b[:o:o], other[o:]...)
			} else {
				b = b[:o]
			}
		case "drop":
			e := clamp(o + m.Len)
			b = append(b[:o:o], b[e:]...)
		case "dup":
			e := clamp(o + m.Len)
			seg := append([]byte(nil), b[o:e]...)
			b = append(b[:e:e], append(seg, b[e:]...)...)
		case "zero":
			e := clamp(o + m.Len)
			for i := o; i < e; i++ {
				b[i] = 0
			}
		case "flip":
			if o < len(b) && len(m.Arg) > 0 {
				b[o] = m.Arg[0]
			}
		case "bitflip":
			if o < len(b) {
				b[o] ^= 1 << uint(m.Len%8)
			}
		case "lf":
			b = append(b[:o:o], bytes.ReplaceAll(b[o:], []byte("\r\n"), []byte("\n"))...)
		case "emptyparam":
			// empty the value of the next parameter after the offset: xxx=value; → xxx=;
			if i := bytes.IndexByte(b[o:], '='); i >= 0 {
				s := o + i + 1
				e := s
				for e < len(b) && b[e] != ';' && b[e] != '\r' && b[e] != '\n' {
					e++
				}
				b = append(b[:s:s], b[e:]...)
			}
		case "insert":
			b = append(b[:o:o], append([]byte(m.Arg), b[o:]...)...)
		case "hdrval":
			// replace the value of the header field whose line contains (or follows) the offset
			ls := bytes.LastIndexByte(b[:o], '\n') + 1
			c := bytes.IndexByte(b[ls:], ':')
			e := bytes.IndexByte(b[ls:], '\n')
			if c >= 0 && e >= 0 && c < e {
				ve := ls + e
				if ve > 0 && b[ve-1] == '\r' {
					ve--
				}
				nb := append([]byte(nil), b[:ls+c+1]...)
				nb = append(nb, ' ')
				nb = append(nb, m.Arg...)
				b = append(nb, b[ve:]...)
			}
		}
	}
	return b
}

var errReader = errors.New("injected read error")

// timeoutErr is what a read past its deadline returns: a net.Error that calls itself temporary.
type timeoutErr struct{}

func (timeoutErr) Error() string   { return "read tcp 192.0.2.1:25: i/o timeout" }
func (timeoutErr) Timeout() bool   { return true }
func (timeoutErr) Temporary() bool { return true }
func (timeoutErr) Unwrap() error   { return errReader }

type simReader struct {
	data  []byte
	pos   int
	cfg   C09Reader
	ci    int
	zeros int
}

func (r *simReader) Read(p []byte) (int, error) {
	if r.zeros < r.cfg.ZeroReads && r.pos > 0 {
		r.zeros++
		return 0, nil
	}
	limit := len(r.data)
	if r.cfg.ErrSet && r.cfg.ErrAt < limit {
		limit = r.cfg.ErrAt
	}
	if r.pos >= limit {
		if r.cfg.ErrSet {
			switch r.cfg.ErrKind {
			case "timeout":
				return 0, timeoutErr{}
			case "unexpected-eof":
				return 0, fmt.Errorf("%w: %w", io.ErrUnexpectedEOF, errReader)
			}
			return 0, errReader
		}
		return 0, io.EOF
	}
	n := limit - r.pos
	if len(r.cfg.Chunks) > 0 {
		c := r.cfg.Chunks[r.ci%len(r.cfg.Chunks)]
		r.ci++
		if c < 1 {
			c = 1
		}
		if c < n {
			n = c
		}
	}
	if n > len(p) {
		n = len(p)
	}
	copy(p, r.data[r.pos:r.pos+n])
	r.pos += n
	if r.pos >= limit && r.cfg.EOFWithData && !r.cfg.ErrSet {
		return n, io.EOF
	}
	return n, nil
}

// c09Hung: a parse of this process has not returned (confirmed twice).
var c09Hung atomic.Bool

type parseResult struct {
	panic any
	stack string
	hung  bool
	err   error
}

func parseOnce(data []byte, c C09Case, tmp string) parseResult {
	hangTouch()
	done := make(chan parseResult, 1)
	go func() {
		var pr parseResult
		defer func() {
			if r := recover(); r != nil {
				pr.panic = r
				pr.stack = string(debug.Stack())
			}
			done <- pr
		}()
		switch c.Entry {
		case "string":
			_, pr.err = mail.EMLToMsgFromString(string(data))
		case "file":
			fn := filepath.Join(tmp, "c09.eml")
			if err := os.WriteFile(fn, data, 0o600); err != nil {
				pr.err = err
				return
			}
			_, pr.err = mail.EMLToMsgFromFile(fn)
		default:
			_, pr.err = mail.EMLToMsgFromReader(&simReader{data: data, cfg: c.Reader})
		}
	}()
	select {
	case pr := <-done:
		return pr
	case <-time.After(10 * time.Second):
		return parseResult{hung: true}
	}
}

func (p *c09) Exec(t *testing.T, scAny any) Outcome {
	sc := scAny.(*C09Scenario)
	var out Outcome
	var base, other []byte
	switch {
	case sc.Base == "render":
		pan, st := RunPlain(t, sc.Seed, func() {
			b := BuildMsg(*sc.Msg, BuildOpts{})
			o := BuildMsg(*sc.Other, BuildOpts{})
			if b.BuildErr != nil || o.BuildErr != nil {
				return
			}
			base, _ = Render(b.Msg)
			other, _ = Render(o.Msg)
		})
		if pan != nil {
			out.Infra = fmt.Sprintf("corpus rendering panicked: %v\n%s", pan, st)
			return out
		}
	case strings.HasPrefix(sc.Base, "fixture:"):
		b, err := os.ReadFile(filepath.Join(RepoRoot, "testdata", strings.TrimPrefix(sc.Base, "fixture:")))
		if err != nil {
			out.Infra = err.Error()
			return out
		}
		base, other = b, b
	case sc.Base == "nested":
		base = nestedEML(sim.NewRand(sc.Seed), sc.RandLen)
		other = base
	case sc.Base == "large":
		base = largeEML(sim.NewRand(sc.Seed), sc.RandLen)
		other = base
	default:
		base = sim.NewRand(sc.Seed).Bytes(sc.RandLen)
		other = base
	}
	out.Digest = hashKey(string(base))
	var prev *C09Case
	judge := func(c C09Case) {
		defer func() { cc := c; prev = &cc }()
		if c09Hung.Load() {
			// a parse that never returns keeps its goroutine (and, when it spins, a processor)
			// for the rest of this process: what follows would be judged on a crippled machine.
			// The hang is reported; the rest of this worker's share is not run.
			out.stat("not-judged.skipped-after-a-hang-in-this-process", 1)
			return
		}
		data := applyMuts(base, other, c.Muts)
		pr := parseOnce(data, c, ScratchDir)
		narrowed := *sc
		narrowed.NCases = 0
		cc := c
		narrowed.Case = &cc
		if prev != nil {
			narrowed.Prior = prev
		}
		note := func(tag, f string, a ...any) {
			if out.Narrowed == nil {
				out.Narrowed = map[string]any{}
			}
			if _, ok := out.Narrowed[tag]; !ok {
				out.Narrowed[tag] = &narrowed
			}
			out.violate(tag, f, a...)
		}
		switch {
		case pr.hung:
			// re-check once before reporting
			if pr2 := parseOnce(data, c, ScratchDir); pr2.hung {
				c09Hung.Store(true)
				note("C09:hang:"+c.Entry, "parsing %d bytes via %s did not return within 10 s (twice)", len(data), c.Entry)
			}
		case pr.panic != nil:
			note("C09:panic:"+panicSite(pr.stack), "EML parsing (%s, %d bytes) panicked: %v\n%s\ninput tail: %q", c.Entry, len(data), pr.panic, pr.stack, tail(data, 120))
		}
		if pr.err != nil {
			out.stat("parse.error", 1)
			if errors.Is(pr.err, errReader) {
				out.stat("fault.fired.reader_error", 1)
				if c.Reader.ErrKind != "" {
					out.stat("fault.fired.reader_error_"+c.Reader.ErrKind, 1)
				}
			}
		} else {
			out.stat("parse.ok", 1)
		}
		for _, m := range c.Muts {
			out.stat("fault.fired.storage_"+m.Kind, 1)
		}
		if c.Reader.EOFWithData {
			out.stat("fault.fired.reader_eof_with_data", 1)
		}
		if c.Reader.ZeroReads > 0 {
			out.stat("fault.fired.reader_zero_reads", 1)
		}
	}
	if sc.Case != nil {
		if sc.Prior != nil {
			_ = parseOnce(applyMuts(base, other, sc.Prior.Muts), *sc.Prior, ScratchDir)
		}
		judge(*sc.Case)
		out.Evals = 1
	} else {
		r := sim.NewRand(sc.Seed ^ 0x9e3779b97f4a7c15)
		for k := 0; k < sc.NCases; k++ {
			judge(genCase(r, base))
		}
		out.Evals = sc.NCases
	}
	out.Key = fmt.Sprintf("%s|%d|%d", sc.Base, len(base), sc.Seed)
	out.Nontrivial = true
	return out
}

func (p *c09) Shrink(scAny any) []any {
	sc := scAny.(*C09Scenario)
	if sc.Case == nil {
		return nil
	}
	var out []any
	for i := range sc.Case.Muts {
		c := *sc
		cc := *sc.Case
		cc.Muts = append(append([]C09Mut(nil), sc.Case.Muts[:i]...), sc.Case.Muts[i+1:]...)
		c.Case = &cc
		out = append(out, &c)
	}
	if sc.Case.Entry != "string" {
		c := *sc
		cc := *sc.Case
		cc.Entry = "string"
		cc.Reader = C09Reader{}
		c.Case = &cc
		out = append(out, &c)
	}
	if sc.Msg != nil {
		m := *sc.Msg
		if len(m.Attach) > 1 {
			c := *sc
			mm := m.clone()
			mm.Attach = mm.Attach[len(mm.Attach)-1:]
			c.Msg = &mm
			out = append(out, &c)
		}
		if len(m.Embeds) > 0 {
			c := *sc
			mm := m.clone()
			mm.Embeds = nil
			c.Msg = &mm
			out = append(out, &c)
		}
	}
	return out
}

func (p *c09) Info() PropInfo {
	return PropInfo{
		Rule:            "per stored message (70% renderings of generated messages incl. awkward file names, 10% fixtures of /repo/testdata, 10% random bytes, 5% legal messages of 3..100 multipart containers nested inside each other, 5% legal messages of 70..260 KiB (16 cases each), unharmed and damaged parses following each other in one process) 250 (thorough: 300) seeded cases, each = 0..3 storage faults {truncate, torn write with a second message, lost range, duplicated range, zeroed block, byte flip, bit flip, CRLF->LF from an offset, emptied parameter value, inserted token, a prefix put in front of the message (byte-order mark whole or cut, mbox separator line, blank lines), header field value replaced by a degenerate one (empty groups, lone separators, half-finished parameters, ...)} at offsets biased (3:1) to positions next to ; = \" : - < > / , CR LF, read back through EMLToMsgFromReader with a reader of drawn chunking / (n>0, EOF) / error at an offset / (0,nil) runs, or through EMLToMsgFromString / EMLToMsgFromFile; evaluations = parses; distinct = distinct stored messages",
		Assumptions:     []string{"termination is judged by a 10 s wall-clock watchdog per parse of at most a few KiB, re-checked once before it is reported", "no statement about the value returned"},
		Real:            []string{"go-mail eml.go (all three entry points) and the Msg setters it calls", "net/mail, mime, mime/multipart, mime/quotedprintable"},
		Stubbed:         []string{"stored bytes (fault-injected)", "io.Reader (fault-injecting)", "corpus rendering runs on a virtual clock with seeded randomness"},
		Exhaustive:      func(string) bool { return false },
		HangIsViolation: true,
		QuickBudget:     100 * time.Second, ThoroughBudget: 25 * time.Minute,
	}
}
