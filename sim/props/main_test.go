package props

import (
	"encoding/json"
	"flag"
	"fmt"
	"os"
	"testing"
	"time"
)

var (
	fProp    = flag.String("sim.prop", "", "property id")
	fTier    = flag.String("sim.tier", "quick", "quick|thorough")
	fSeed    = flag.Uint64("sim.seed", 1, "VERIF_SEED")
	fShard   = flag.Int("sim.shard", 0, "shard index")
	fShards  = flag.Int("sim.shards", 1, "number of shards")
	fMax     = flag.Int("sim.max", 0, "total run target over all shards (0: until exhausted/budget)")
	fBudget  = flag.Duration("sim.budget", time.Minute, "wall budget of this worker")
	fOut     = flag.String("sim.out", "", "result file")
	fReplay  = flag.String("sim.replay", "", "replay file to execute")
	fShrink  = flag.String("sim.shrink", "", "replay file to minimise (rewritten in place to -sim.out)")
	fDigests = flag.Bool("sim.digests", false, "record per-run digests")
	fTmp     = flag.String("sim.tmp", "", "scratch directory of this process")
)

func TestMain(m *testing.M) {
	flag.Parse()
	tmp := *fTmp
	own := false
	if tmp == "" {
		d, err := os.MkdirTemp("", "simcheck-")
		if err != nil {
			fmt.Fprintln(os.Stderr, "INFRA:", err)
			os.Exit(2)
		}
		tmp, own = d, true
	}
	ScratchDir = tmp
	if err := Setup(tmp); err != nil {
		fmt.Fprintln(os.Stderr, "INFRA:", err)
		os.Exit(2)
	}
	code := m.Run()
	if own {
		os.RemoveAll(tmp)
	}
	os.Exit(code)
}

// TestWorker runs one shard of a check.
func TestWorker(t *testing.T) {
	if *fProp == "" || *fOut == "" {
		t.Skip("not a worker invocation")
	}
	RunWorker(t, WorkerArgs{Prop: *fProp, Tier: *fTier, Seed: *fSeed, Shard: *fShard, Shards: *fShards, MaxRuns: *fMax,
		Budget: *fBudget, Out: *fOut, WantDigests: *fDigests})
}

// TestReplay re-executes a replay file.
func TestReplay(t *testing.T) {
	if *fReplay == "" {
		t.Skip("no replay file")
	}
	rr := RunReplay(t, *fReplay)
	raw, _ := json.MarshalIndent(rr, "", " ")
	if *fOut != "" {
		_ = os.WriteFile(*fOut, raw, 0o644)
	} else {
		fmt.Println(string(raw))
	}
}

// TestShrink minimises a replay file.
func TestShrink(t *testing.T) {
	if *fShrink == "" || *fOut == "" {
		t.Skip("no shrink request")
	}
	raw, err := os.ReadFile(*fShrink)
	if err != nil {
		t.Fatal(err)
	}
	var rf ReplayFile
	if err := json.Unmarshal(raw, &rf); err != nil {
		t.Fatal(err)
	}
	out := RunShrink(t, rf, 300)
	raw, _ = json.MarshalIndent(out, "", " ")
	if err := os.WriteFile(*fOut, raw, 0o644); err != nil {
		t.Fatal(err)
	}
}

// TestMeta prints the static description of a property for the driver.
func TestMeta(t *testing.T) {
	if *fProp == "" || *fOut != "" || *fReplay != "" || *fShrink != "" {
		t.Skip("not a meta query")
	}
	p := Lookup(*fProp)
	if p == nil {
		t.Fatalf("unknown property %s", *fProp)
	}
	in := p.Info()
	m := map[string]any{"Level": p.Level(), "Rule": in.Rule, "Assumptions": in.Assumptions, "Real": in.Real, "Stubbed": in.Stubbed,
		"NotCovered": in.NotCovered, "Exhaustive": in.Exhaustive != nil && in.Exhaustive(*fTier), "QuickBudget": in.QuickBudget,
		"ThoroughBudget": in.ThoroughBudget, "QuickRuns": in.QuickRuns, "ThoroughRuns": in.ThoroughRuns}
	raw, _ := json.Marshal(m)
	fmt.Println("META:" + string(raw))
}
