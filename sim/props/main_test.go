package props

import (
	"encoding/json"
	"flag"
	"fmt"
	"os"
	"testing"
	"time"
)

var (
	fProp     = flag.String("sim.prop", "", "property id")
	fTier     = flag.String("sim.tier", "quick", "quick|thorough")
	fSeed     = flag.Uint64("sim.seed", 1, "VERIF_SEED")
	fShard    = flag.Int("sim.shard", 0, "shard index")
	fShards   = flag.Int("sim.shards", 1, "number of shards")
	fMax      = flag.Int("sim.max", 0, "total run target over all shards (0: until exhausted/budget)")
	fBudget   = flag.Duration("sim.budget", time.Minute, "wall budget of this worker")
	fOut      = flag.String("sim.out", "", "result file")
	fReplay   = flag.String("sim.replay", "", "replay file to execute")
	fShrink   = flag.String("sim.shrink", "", "replay file to minimise (rewritten in place to -sim.out)")
	fDigests  = flag.Bool("sim.digests", false, "record per-run digests")
	fAttempts = flag.Int("sim.attempts", 1, "replay attempts")
	fTmp      = flag.String("sim.tmp", "", "scratch directory of this process")
)

func TestMain(m *testing.M) {
	flag.Parse()
	tmp := *fTmp
	own := false
	if tmp == "" {
		d, err := os.MkdirTemp("", "simcheck-")
		if err != nil {
			fmt.Fprintln(os.Stderr, "INFRA:", err)
			os.Exit(2)
		}
		tmp, own = d, true
	}
	ScratchDir = tmp
	if err := Setup(tmp); err != nil {
		fmt.Fprintln(os.Stderr, "INFRA:", err)
		os.Exit(2)
	}
	code := m.Run()
	if own {
		os.RemoveAll(tmp)
	}
	os.Exit(code)
}

// TestWorker runs one shard of a check.
func TestWorker(t *testing.T) {
	if *fProp == "" || *fOut == "" {
		t.Skip("not a worker invocation")
	}
	RunWorker(t, WorkerArgs{Prop: *fProp, Tier: *fTier, Seed: *fSeed, Shard: *fShard, Shards: *fShards, MaxRuns: *fMax,
		Budget: *fBudget, Out: *fOut, WantDigests: *fDigests})
}

// TestReplay re-executes a replay file.
func TestReplay(t *testing.T) {
	if *fReplay == "" {
		t.Skip("no replay file")
	}
	startHangMonitor(func(stacks string) {
		// the scenario hangs again: that reproduces a ":hang" violation and nothing else
		var rf ReplayFile
		raw, _ := os.ReadFile(*fReplay)
		_ = json.Unmarshal(raw, &rf)
		tag := rf.Property + ":hang"
		rr := ReplayResult{Tags: []string{tag}, Reproduced: rf.Tag == tag, Findings: []Finding{{Tag: tag, Detail: "the scenario did not finish; goroutines inside go-mail: " + stacks}}}
		out, _ := json.MarshalIndent(rr, "", " ")
		if *fOut != "" {
			_ = os.WriteFile(*fOut, out, 0o644)
		} else {
			fmt.Println(string(out))
		}
		os.Exit(0)
	})
	rr := RunReplay(t, *fReplay)
	// properties that depend on a nondeterminism source without a seam (Go's map iteration
	// order, C11) repeat the replay; everything else is deterministic and runs once
	for i := 1; i < *fAttempts && !rr.Reproduced && rr.Infra == ""; i++ {
		rr = RunReplay(t, *fReplay)
	}
	raw, _ := json.MarshalIndent(rr, "", " ")
	if *fOut != "" {
		_ = os.WriteFile(*fOut, raw, 0o644)
	} else {
		fmt.Println(string(raw))
	}
}

// TestShrink minimises a replay file.
func TestShrink(t *testing.T) {
	if *fShrink == "" || *fOut == "" {
		t.Skip("no shrink request")
	}
	raw, err := os.ReadFile(*fShrink)
	if err != nil {
		t.Fatal(err)
	}
	var rf ReplayFile
	if err := json.Unmarshal(raw, &rf); err != nil {
		t.Fatal(err)
	}
	// a candidate that hangs ends the process without a result; the driver then keeps the
	// unminimised scenario
	startHangMonitor(func(string) {})
	out := RunShrink(t, rf, 300)
	raw, _ = json.MarshalIndent(out, "", " ")
	if err := os.WriteFile(*fOut, raw, 0o644); err != nil {
		t.Fatal(err)
	}
}

// TestMeta prints the static description of a property for the driver.
func TestMeta(t *testing.T) {
	if *fProp == "" || *fOut != "" || *fReplay != "" || *fShrink != "" {
		t.Skip("not a meta query")
	}
	p := Lookup(*fProp)
	if p == nil {
		t.Fatalf("unknown property %s", *fProp)
	}
	in := p.Info()
	m := map[string]any{"Level": p.Level(), "Rule": in.Rule, "Assumptions": in.Assumptions, "Real": in.Real, "Stubbed": in.Stubbed,
		"NotCovered": in.NotCovered, "Exhaustive": in.Exhaustive != nil && in.Exhaustive(*fTier), "QuickBudget": in.QuickBudget,
		"ThoroughBudget": in.ThoroughBudget, "QuickRuns": in.QuickRuns, "ThoroughRuns": in.ThoroughRuns}
	raw, _ := json.Marshal(m)
	fmt.Println("META:" + string(raw))
}

var fDump = flag.String("sim.dump", "", "replay file whose SendScenario is executed and dumped (debug aid)")

// TestDump executes a SendScenario replay file and prints the server history and call records.
func TestDump(t *testing.T) {
	if *fDump == "" {
		t.Skip("no dump request")
	}
	raw, err := os.ReadFile(*fDump)
	if err != nil {
		t.Fatal(err)
	}
	var rf ReplayFile
	if err := json.Unmarshal(raw, &rf); err != nil {
		t.Fatal(err)
	}
	var sc SendScenario
	if err := json.Unmarshal(rf.Scenario, &sc); err != nil {
		t.Fatal(err)
	}
	run := ExecSend(t, &sc, nil)
	fmt.Printf("verdict=%s steps=%d infra=%q unfinished=%v\n", run.Res.Verdict, run.Res.Steps, run.Infra, run.Res.Unfinished)
	for _, e := range run.Env.Srv.H.Events {
		fmt.Printf("%4d step=%-5d t=%-12v conn=%d %-6s %-8s nth=%d code=%d act=%s state=%s obs=%s line=%q text=%q\n", e.Seq, e.Step, time.Duration(e.TimeNs), e.Conn, e.Kind, e.Verb, e.Nth, e.Code, e.Action, e.State, e.Obs, e.Line, e.Text)
	}
	for _, c := range run.Env.Calls {
		fmt.Printf("call %s start=%v end=%v returned=%v err=%v panic=%v\n", c.Name, time.Duration(c.StartNs), time.Duration(c.EndNs), c.Returned, c.Err, c.Panic)
	}
	for _, p := range run.Env.Pipes {
		a, b := p.StallBegan()
		fmt.Printf("pipe %d: c2s=%d bytes s2c=%d bytes delivered=%d closed=%v stallBegan=%v/%v\n", p.ID, p.C2SLen(), p.S2CLen(), p.S2CDelivered(), p.Client.Closed(), time.Duration(a), time.Duration(b))
	}
}

// TestDumpC03 shows committed content vs. reference for a C03 replay file (debug aid).
func TestDumpC03(t *testing.T) {
	if *fDump == "" || *fProp != "C03" {
		t.Skip("no C03 dump request")
	}
	raw, _ := os.ReadFile(*fDump)
	var rf ReplayFile
	_ = json.Unmarshal(raw, &rf)
	var sc C03Scenario
	if err := json.Unmarshal(rf.Scenario, &sc); err != nil {
		t.Fatal(err)
	}
	run := ExecSend(t, &sc.SendScenario, nil)
	for _, c := range run.Env.Srv.H.Commits {
		fmt.Printf("=== commit from %s (%d bytes)\n%s\n", c.From.Raw, len(c.Content), c.Content)
	}
	for bi := range run.Post {
		for mi := range run.Post[bi] {
			fmt.Printf("=== post-render %d/%d (%d bytes) err=%v\n%s\n", bi, mi, len(run.Post[bi][mi]), run.PostErr[bi][mi], run.Post[bi][mi])
			if run.Pre != nil {
				fmt.Printf("=== pre-render %d/%d (%d bytes)\n%s\n", bi, mi, len(run.Pre[bi][mi]), run.Pre[bi][mi])
			}
		}
	}
}
