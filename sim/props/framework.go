package props

import (
	"encoding/json"
	"fmt"
	"hash/fnv"
	"os"
	"sort"
	"strings"
	"testing"
	"time"
)

// Finding is one violation of a property seen in a run.
type Finding struct {
	// Tag names the violation class and the failing site. Known findings are matched on it, so it
	// is specific enough that a different violation of the same property gets a different tag,
	// and stable across runs (no seeds, tokens or offsets in it).
	Tag    string `json:"tag"`
	Detail string `json:"detail"`
}

// Outcome of executing one scenario.
type Outcome struct {
	Findings []Finding
	// Stats: fault kinds that actually fired, reach probes, …; summed over runs.
	Stats map[string]int
	// Key is the distinctness measure of the run (hashed); Nontrivial says whether the run
	// counts as a non-trivial case by the property's stated rule.
	Key        string
	Nontrivial bool
	SimNs      int64
	Steps      int
	Digest     uint64
	// Infra is set for harness/infrastructure trouble: never a VIOLATION, the check exits 2.
	Infra string
	// Narrowed maps a finding's tag to a scenario that pins down the failing case inside a
	// scenario that enumerates many (e.g. the one sink offset out of all offsets).
	Narrowed map[string]any
	// Evals is the number of executions this scenario stands for (default 1).
	Evals int
}

func (o *Outcome) stat(k string, n int) {
	if o.Stats == nil {
		o.Stats = map[string]int{}
	}
	o.Stats[k] += n
}

func (o *Outcome) violate(tag, f string, a ...any) {
	for _, x := range o.Findings {
		if x.Tag == tag {
			return
		}
	}
	o.Findings = append(o.Findings, Finding{Tag: tag, Detail: fmt.Sprintf(f, a...)})
}

// Prop is one property's machinery.
type Prop interface {
	ID() string
	Level() string // exploration | fault_enumeration
	// Gen produces scenario i of the sample/enumeration selected by (seed, tier); ok=false when
	// the space is exhausted. It must depend on nothing but its arguments.
	Gen(seed uint64, i int, tier string) (sc any, ok bool)
	Decode(raw []byte) (any, error)
	Exec(t *testing.T, sc any) Outcome
	// Shrink proposes simpler scenarios (most aggressive first).
	Shrink(sc any) []any
	Info() PropInfo
}

// PropInfo is static documentation that ends up in the evidence file.
type PropInfo struct {
	Rule        string
	Assumptions []string
	Real        []string
	Stubbed     []string
	NotCovered  []string
	Exhaustive  func(tier string) bool
	// Target number of runs and wall budget per tier.
	QuickRuns, ThoroughRuns     int
	QuickBudget, ThoroughBudget time.Duration
	// HangIsViolation: the property itself promises that calls come back ("no call blocks
	// indefinitely", "always terminates", deadlock freedom): a scenario that never finishes
	// (hang.go) is then a violation <ID>:hang; for every other property it is reported as
	// trouble of the run (exit 2), never as a verdict.
	HangIsViolation bool
}

var registry = map[string]Prop{}

func register(p Prop) { registry[p.ID()] = p }

// Lookup finds a property.
func Lookup(id string) Prop { return registry[id] }

// IDs lists the registered properties.
func IDs() []string {
	var ids []string
	for k := range registry {
		ids = append(ids, k)
	}
	sort.Strings(ids)
	return ids
}

func decodeInto[T any](raw []byte) (any, error) {
	var v T
	if err := json.Unmarshal(raw, &v); err != nil {
		return nil, err
	}
	return &v, nil
}

// ---------- worker protocol ----------

// Violation as reported by a worker.
type Violation struct {
	Tag      string          `json:"tag"`
	Detail   string          `json:"detail"`
	Index    int             `json:"index"`
	Scenario json.RawMessage `json:"scenario"`
	Count    int             `json:"count"`
}

// WorkerResult is the JSON a worker writes.
type WorkerResult struct {
	Prop       string            `json:"prop"`
	Runs       int               `json:"runs"`
	Nontrivial []uint64          `json:"nontrivial"` // hashes of distinct non-trivial keys
	Stats      map[string]int    `json:"stats"`
	Violations []Violation       `json:"violations"`
	Samples    []json.RawMessage `json:"samples"`
	SimNs      int64             `json:"simNs"`
	Steps      int64             `json:"steps"`
	Infra      []string          `json:"infra"`
	Exhausted  bool              `json:"exhausted"`
	WallS      float64           `json:"wallS"`
	Digests    map[int]uint64    `json:"digests,omitempty"` // index → run digest (determinism self-test)
}

func hashKey(s string) uint64 {
	h := fnv.New64a()
	h.Write([]byte(s))
	return h.Sum64()
}

// WorkerArgs selects a shard of the run indices.
type WorkerArgs struct {
	Prop        string
	Tier        string
	Seed        uint64
	Shard       int
	Shards      int
	MaxRuns     int // total over all shards
	Budget      time.Duration
	Out         string
	WantDigests bool
}

// RunWorker executes a shard.
func RunWorker(t *testing.T, a WorkerArgs) {
	p := Lookup(a.Prop)
	if p == nil {
		t.Fatalf("unknown property %s", a.Prop)
	}
	res := WorkerResult{Prop: a.Prop, Stats: map[string]int{}}
	if a.WantDigests {
		res.Digests = map[int]uint64{}
	}
	seen := map[uint64]bool{}
	byTag := map[string]int{}
	start := time.Now()
	var curIdx int
	var curSc any
	startHangMonitor(func(stacks string) {
		raw, _ := json.Marshal(curSc)
		what := fmt.Sprintf("the scenario did not finish within %v of real time (it takes milliseconds): a task is stuck outside every yield point — blocked on a real lock that is never released, or looping; goroutines inside go-mail: %s", hangLimit(), stacks)
		if p.Info().HangIsViolation {
			res.Violations = append(res.Violations, Violation{Tag: a.Prop + ":hang", Detail: what, Index: curIdx, Scenario: raw, Count: 1})
		} else {
			res.Infra = append(res.Infra, fmt.Sprintf("run %d: %s; scenario=%s", curIdx, what, raw))
		}
		res.WallS = time.Since(start).Seconds()
		out, _ := json.Marshal(res)
		_ = os.WriteFile(a.Out, out, 0o644)
		os.Exit(0)
	})
	for i := a.Shard; a.MaxRuns <= 0 || i < a.MaxRuns; i += a.Shards {
		if a.Budget > 0 && time.Since(start) > a.Budget {
			break
		}
		sc, ok := p.Gen(a.Seed, i, a.Tier)
		if !ok {
			res.Exhausted = true
			break
		}
		curIdx, curSc = i, sc
		hangBegin()
		out := p.Exec(t, sc)
		hangEnd()
		res.Runs++
		if out.Evals > 1 {
			res.Runs += out.Evals - 1
		}
		res.SimNs += out.SimNs
		res.Steps += int64(out.Steps)
		if res.Digests != nil {
			res.Digests[i] = out.Digest
		}
		for k, v := range out.Stats {
			res.Stats[k] += v
		}
		if out.Nontrivial {
			h := hashKey(out.Key)
			if !seen[h] {
				seen[h] = true
				res.Nontrivial = append(res.Nontrivial, h)
			}
		}
		if out.Infra != "" {
			if len(res.Infra) < 5 {
				raw, _ := json.Marshal(sc)
				res.Infra = append(res.Infra, fmt.Sprintf("run %d: %s; scenario=%s", i, out.Infra, raw))
			}
			continue
		}
		if len(res.Samples) < 2 && (out.Nontrivial || i < 2*a.Shards) {
			raw, _ := json.Marshal(sc)
			if len(raw) < 6000 {
				res.Samples = append(res.Samples, raw)
			}
		}
		for _, f := range out.Findings {
			if idx, ok := byTag[f.Tag]; ok {
				res.Violations[idx].Count++
				continue
			}
			if len(res.Violations) >= 40 {
				continue
			}
			raw, _ := json.Marshal(sc)
			if n, ok := out.Narrowed[f.Tag]; ok {
				raw, _ = json.Marshal(n)
			}
			byTag[f.Tag] = len(res.Violations)
			res.Violations = append(res.Violations, Violation{Tag: f.Tag, Detail: f.Detail, Index: i, Scenario: raw, Count: 1})
		}
	}
	res.WallS = time.Since(start).Seconds()
	raw, _ := json.Marshal(res)
	if err := os.WriteFile(a.Out, raw, 0o644); err != nil {
		t.Fatal(err)
	}
}

// ReplayFile is the on-disk form of a (minimised) violating scenario.
type ReplayFile struct {
	Property string          `json:"property"`
	Tag      string          `json:"tag"`
	Detail   string          `json:"detail"`
	Seed     uint64          `json:"seed"`
	Index    int             `json:"index"`
	Digest   uint64          `json:"digest"`
	Scenario json.RawMessage `json:"scenario"`
	Note     string          `json:"note,omitempty"`
}

// ReplayResult is what a replay process reports.
type ReplayResult struct {
	Reproduced bool      `json:"reproduced"`
	Tags       []string  `json:"tags"`
	Findings   []Finding `json:"findings"`
	Digest     uint64    `json:"digest"`
	Infra      string    `json:"infra,omitempty"`
}

// RunReplay executes a replay file's scenario once and reports whether its tag shows again.
func RunReplay(t *testing.T, path string) ReplayResult {
	raw, err := os.ReadFile(path)
	if err != nil {
		return ReplayResult{Infra: err.Error()}
	}
	var rf ReplayFile
	if err := json.Unmarshal(raw, &rf); err != nil {
		return ReplayResult{Infra: err.Error()}
	}
	p := Lookup(rf.Property)
	if p == nil {
		return ReplayResult{Infra: "unknown property " + rf.Property}
	}
	sc, err := p.Decode(rf.Scenario)
	if err != nil {
		return ReplayResult{Infra: err.Error()}
	}
	hangBegin()
	out := p.Exec(t, sc)
	hangEnd()
	rr := ReplayResult{Digest: out.Digest, Infra: out.Infra, Findings: out.Findings}
	for _, f := range out.Findings {
		rr.Tags = append(rr.Tags, f.Tag)
		if sameViolation(f.Tag, rf.Tag) {
			rr.Reproduced = true
		}
	}
	return rr
}

// sameViolation: tags are compared exactly, except race reports, whose tag carries the two
// functions the detector happened to catch first: any report of a data race under the same
// scenario reproduces "a data race".
func sameViolation(a, b string) bool {
	if a == b {
		return true
	}
	const r = "C13:data-race:"
	return strings.HasPrefix(a, r) && strings.HasPrefix(b, r)
}

// RunShrink minimises a violating scenario: greedy descent over the property's Shrink
// candidates, keeping a candidate only if it still shows the same tag; bounded.
func RunShrink(t *testing.T, in ReplayFile, maxExec int) ReplayFile {
	p := Lookup(in.Property)
	cur, err := p.Decode(in.Scenario)
	if err != nil {
		return in
	}
	has := func(o Outcome) (bool, string) {
		for _, f := range o.Findings {
			if sameViolation(f.Tag, in.Tag) {
				return true, f.Detail
			}
		}
		return false, ""
	}
	execs := 0
	out := execGuarded(p, t, cur)
	ok, det := has(out)
	if !ok {
		in.Note = "did not reproduce before shrinking"
		return in
	}
	in.Detail = det
	in.Digest = out.Digest
	progress := true
	for progress && execs < maxExec {
		progress = false
		for _, cand := range p.Shrink(cur) {
			if execs >= maxExec {
				break
			}
			execs++
			// round-trip through JSON so that the candidate is exactly what a replay will see
			raw, _ := json.Marshal(cand)
			dec, err := p.Decode(raw)
			if err != nil {
				continue
			}
			o := execGuarded(p, t, dec)
			if ok, det := has(o); ok && o.Infra == "" {
				cur = dec
				in.Detail = det
				in.Digest = o.Digest
				progress = true
				break
			}
		}
	}
	raw, _ := json.Marshal(cur)
	in.Scenario = raw
	in.Note = fmt.Sprintf("minimised with %d re-executions", execs)
	return in
}

// execGuarded runs one scenario under the hang monitor.
func execGuarded(p Prop, t *testing.T, sc any) Outcome {
	hangBegin()
	defer hangEnd()
	return p.Exec(t, sc)
}
