package props

import (
	"context"
	"fmt"
	"strings"
	"testing"
	"time"

	mail "github.com/wneessen/go-mail"

	"verif/sim/refsmtpd"
	"verif/sim/sim"
)

// C19 — No connection outlives a failed operation.
//
// Enumerated: a failing reply (4yz/5yz/garbage), a disconnect, or a TLS failure at every step of
// DialWithContext / DialAndSend × TLS policy × auth type. Oracle: the simulated connection records
// Close; whenever the call returns an error after the dial function returned a connection, Close
// has happened before the return; a successful DialAndSend wrote QUIT and closed.

type C19Scenario struct {
	Client   ClientCfg       `json:"client"`
	Server   refsmtpd.Config `json:"server"`
	Op       string          `json:"op"` // dial | dialandsend
	Msgs     []MsgSpec       `json:"msgs,omitempty"`
	Conn     sim.ConnFaults  `json:"conn,omitempty"`
	Step     string          `json:"step"` // label of the injected failure (for the tag)
	DialFail int             `json:"dialFail,omitempty"`
	Sched    uint64          `json:"sched"`
	// CancelUs: the caller's context is cancelled (not expired) by another task this many virtual
	// microseconds after the call started.
	CancelUs int `json:"cancelUs,omitempty"`
}

type c19 struct{ cache map[string][]C19Scenario }

func init() { register(&c19{cache: map[string][]C19Scenario{}}) }

func (*c19) ID() string    { return "C19" }
func (*c19) Level() string { return "fault_enumeration" }

func (*c19) Decode(raw []byte) (any, error) { return decodeInto[C19Scenario](raw) }

var failKinds = []refsmtpd.Action{
	{Code: 421, Text: "service not available"},
	{Code: 451, Text: "local error in processing"},
	{Code: 550, Text: "rejected by policy"},
	{Code: 554, Text: "transaction failed"},
	{Kind: "drop"},
	{Kind: "garbage"},
	{Kind: "close-after", Code: 421, Text: "closing transmission channel"},
}

func authCaps(mechs ...string) string { return "AUTH " + strings.Join(mechs, " ") }

var allMechs = []string{"PLAIN", "LOGIN", "CRAM-MD5", "XOAUTH2", "SCRAM-SHA-1", "SCRAM-SHA-256", "SCRAM-SHA-1-PLUS", "SCRAM-SHA-256-PLUS"}

func (p *c19) build(seed uint64, tier string) []C19Scenario {
	key := fmt.Sprintf("%d/%s", seed, tier)
	if l, ok := p.cache[key]; ok {
		return l
	}
	var out []C19Scenario
	policies := []string{"mandatory", "opportunistic", "none"}
	auths := []string{"", "PLAIN", "LOGIN", "CRAM-MD5", "SCRAM-SHA-256", "XOAUTH2", "AUTODISCOVER", "SCRAM-SHA-256-PLUS", "PLAIN-NOENC", "LOGIN-NOENC", "SCRAM-SHA-1", "SCRAM-SHA-1-PLUS", "CUSTOM-PLAIN"}
	if tier != "thorough" {
		auths = []string{"", "PLAIN", "LOGIN", "SCRAM-SHA-256", "AUTODISCOVER", "CRAM-MD5", "XOAUTH2"}
	}
	ops := []string{"dial", "dialandsend"}
	idx := 0
	sr := sim.NewRand(sim.Derive(seed, 19, 4242))
	add := func(s C19Scenario) {
		idx++
		s.Sched = sim.Derive(seed, 19, uint64(idx))
		s.Server.Caps = append([]string(nil), s.Server.Caps...)
		Swarm(sr, &s.Client, &s.Server.Caps)
		if strings.HasPrefix(s.Step, "NOOP") || strings.Contains(s.Step, "+") {
			s.Client.NoNoop = false
		}
		out = append(out, s)
	}
	for _, pol := range policies {
		for _, auth := range auths {
			for _, op := range ops {
				base := func() C19Scenario {
					caps := []string{"8BITMIME", "ENHANCEDSTATUSCODES", "STARTTLS", authCaps(allMechs...)}
					c := ClientCfg{TLSPolicy: pol, AuthType: auth, User: "user-c19", Pass: "pass-c19-Zq8"}
					s := C19Scenario{Client: c, Op: op, Server: refsmtpd.Config{Caps: caps, TLS: refsmtpd.TLSCfg{Cert: "valid"},
						Auth: refsmtpd.AuthCfg{User: "user-c19", Pass: "pass-c19-Zq8", Salt: []byte("saltsalt"), Iter: 64}}}
					if op == "dialandsend" {
						s.Msgs = []MsgSpec{SimpleMsg("m1", "a@dest.example", "b@dest.example")}
					}
					return s
				}
				usesTLS := pol != "none"
				// the fault-free control
				{
					s := base()
					s.Step = "none"
					add(s)
				}
				if op == "dialandsend" {
					c19Refusals(base, "", add)
				}
				// steps of the dial phase
				type stepDef struct {
					label string
					verb  string
					nth   int
					only  func() bool
				}
				steps := []stepDef{
					{"GREET", "GREET", 1, nil},
					{"EHLO", "EHLO", 1, nil},
					{"STARTTLS", "STARTTLS", 1, func() bool { return usesTLS }},
					{"EHLO-after-TLS", "EHLO", 2, func() bool { return usesTLS }},
					{"AUTH", "AUTH", 1, func() bool { return auth != "" }},
					{"AUTHRESP-1", "AUTHRESP", 1, func() bool {
						return auth != "" && auth != "PLAIN" && auth != "PLAIN-NOENC" && auth != "XOAUTH2" && auth != "CUSTOM-PLAIN"
					}},
					{"AUTHRESP-2", "AUTHRESP", 2, func() bool {
						return auth == "LOGIN" || auth == "LOGIN-NOENC" || strings.HasPrefix(auth, "SCRAM") || auth == "AUTODISCOVER"
					}},
					{"AUTHRESP-3", "AUTHRESP", 3, func() bool { return strings.HasPrefix(auth, "SCRAM") || auth == "AUTODISCOVER" }},
				}
				if op == "dialandsend" {
					steps = append(steps, []stepDef{
						{"NOOP", "NOOP", 1, nil}, {"MAIL", "MAIL", 1, nil}, {"RCPT-1", "RCPT", 1, nil}, {"RCPT-2", "RCPT", 2, nil},
						{"DATA", "DATA", 1, nil}, {"EOD", "EOD", 1, nil}, {"RSET", "RSET", 1, nil}, {"NOOP-2", "NOOP", 2, nil}, {"QUIT", "QUIT", 1, nil},
					}...)
				}
				if usesTLS {
					// connection made through the fallback port after a failed first dial
					for _, st := range steps {
						if st.only != nil && !st.only() {
							continue
						}
						s := base()
						s.Step = "fallback:" + st.label
						s.Client.FallbackPort, s.DialFail = true, 1
						s.Client.TLSPolicy = "opportunistic" // WithTLSPortPolicy sets a fallback port for this policy only
						s.Server.Rules = []refsmtpd.Rule{{Verb: st.verb, Nth: st.nth, Action: failKinds[2]}}
						add(s)
					}
				}
				for si, st := range steps {
					if st.only != nil && !st.only() {
						continue
					}
					for fi, fk := range failKinds {
						s := base()
						s.Step = st.label
						s.Server.Rules = []refsmtpd.Rule{{Verb: st.verb, Nth: st.nth, Action: fk}}
						add(s)
						// a second fault on the clean-up path of the first: the QUIT / RSET that follows
						// a failure is refused, dropped or garbled as well (thorough: every pair;
						// quick: a rotating sample)
						if st.verb == "QUIT" {
							continue
						}
						for ci, cl := range []refsmtpd.Rule{
							{Verb: "QUIT", Nth: 1, Action: refsmtpd.Action{Code: 421, Text: "closing"}},
							{Verb: "QUIT", Nth: 1, Action: refsmtpd.Action{Kind: "drop"}},
							{Verb: "QUIT", Nth: 1, Action: refsmtpd.Action{Kind: "garbage"}},
							{Verb: "RSET", Nth: 1, Action: refsmtpd.Action{Code: 451, Text: "cannot reset"}},
							{Verb: "RSET", Nth: 1, Action: refsmtpd.Action{Kind: "drop"}},
							// a connection probe on the clean-up path (the unchanged tree sends none
							// there; a change that adds one must cope with its refusal)
							{Verb: "NOOP", Nth: 2, Action: refsmtpd.Action{Code: 421, Text: "going down"}},
						} {
							// quick: a rotating sample, which always holds the refused QUIT (a reply
							// that is not 221 is the one clean-up fault that leaves the connection
							// usable, hence open) for one failure kind per step
							if tier != "thorough" && (si+fi+ci)%5 != 0 && !(ci == 0 && fi == si%len(failKinds)) {
								continue
							}
							if (cl.Verb == "RSET" || cl.Verb == "NOOP") && op != "dialandsend" {
								continue
							}
							s := base()
							s.Step = st.label + "+" + cl.Verb
							s.Server.Rules = []refsmtpd.Rule{{Verb: st.verb, Nth: st.nth, Action: fk}, cl}
							add(s)
						}
					}
				}
				// EHLO and HELO both refused
				for _, fk := range failKinds[:5] {
					s := base()
					s.Step = "EHLO+HELO"
					s.Server.Rules = []refsmtpd.Rule{{Verb: "EHLO", Nth: 1, Action: refsmtpd.Action{Code: 502, Text: "not implemented"}}, {Verb: "HELO", Nth: 1, Action: fk}}
					add(s)
				}
				// EHLO refused, HELO accepted (no extensions at all)
				{
					s := base()
					s.Step = "EHLO-refused-HELO-ok"
					s.Server.NoEHLO = true
					add(s)
				}
				if usesTLS {
					// STARTTLS not advertised
					s := base()
					s.Step = "STARTTLS-missing"
					s.Server.Caps = []string{"8BITMIME", authCaps(allMechs...)}
					add(s)
					for _, cert := range []string{"wrongname", "untrusted", "garbage"} {
						s := base()
						s.Step = "TLS-handshake-" + cert
						s.Server.TLS.Cert = cert
						add(s)
					}
				}
				if auth != "" {
					// AUTH not advertised at all
					s := base()
					s.Step = "AUTH-missing"
					s.Server.Caps = []string{"8BITMIME", "STARTTLS"}
					add(s)
					// the chosen mechanism not advertised
					s = base()
					s.Step = "AUTH-mech-missing"
					s.Server.Caps = []string{"8BITMIME", "STARTTLS", "AUTH GSSAPI NTLM"}
					add(s)
					// wrong password
					s = base()
					s.Step = "AUTH-bad-password"
					s.Client.Pass = "wrong-password"
					add(s)
				}
				// the n-th SetDeadline on the connection fails (nothing else is wrong with it)
				for n := 1; n <= 6; n++ {
					if tier != "thorough" && (idx+n)%2 != 0 {
						continue
					}
					s := base()
					s.Step = fmt.Sprintf("setdeadline-fails#%d", n)
					s.Conn = sim.ConnFaults{SetDeadlineFailNth: n}
					add(s)
				}
				// the n-th write of the client fails (the peer is gone and the kernel says so at
				// exactly that command: EHLO ... QUIT)
				for n := 1; n <= 14; n++ {
					if tier != "thorough" && (idx+n)%3 != 0 {
						continue
					}
					s := base()
					s.Step = fmt.Sprintf("write-fails#%d", n)
					s.Conn = sim.ConnFaults{WriteFailNth: n}
					add(s)
				}
				// the caller cancels its context (it does not expire) at some instant after the
				// connection was made, while every reply of the server is positive
				for _, us := range []int{150, 400, 800, 1500, 2500} {
					if tier != "thorough" && (idx+us/50)%3 != 0 {
						continue
					}
					s := base()
					s.Step = "ctx-cancelled"
					s.CancelUs = us
					add(s)
				}
				if op == "dial" {
					// a second DialWithContext on a Client that is still connected (no Close in
					// between): whatever the Client does about the earlier connection — whose
					// QUIT is refused, lost or garbled here — a connection opened by a call that
					// returns an error must have been closed
					for _, q := range []refsmtpd.Action{{Code: 421, Text: "closing"}, {Code: 500, Text: "what?"}, {Kind: "drop"}, {Kind: "garbage"}} {
						for _, second := range []*refsmtpd.Rule{nil, {Verb: "EHLO", Nth: 1, Conn: 2, Action: refsmtpd.Action{Code: 421, Text: "busy"}}} {
							s := base()
							s.Op = "redial"
							s.Step = "redial:QUIT-of-first"
							s.Server.Rules = []refsmtpd.Rule{{Verb: "QUIT", Nth: 1, Conn: 1, Action: q}}
							if second != nil {
								s.Step += "+EHLO-of-second"
								s.Server.Rules = append(s.Server.Rules, *second)
							}
							add(s)
						}
					}
				}
				if op == "dialandsend" {
					// client-side write failure / reset in the middle of the content
					s := base()
					s.Step = "reset-in-content"
					s.Client.TLSPolicy = pol
					if pol == "none" {
						s.Conn = sim.ConnFaults{Reset: true, ResetAt: 260}
						add(s)
					}
				}
			}
		}
	}
	if DialSeam {
		// go-mail's own dialers (no WithDialContextFunc): net.Dialer for the STARTTLS policies,
		// tls.Dialer for implicit TLS, the fallback port behind WithSSLPort(true), and QuickSend,
		// which builds its Client itself
		for _, auth := range []string{"", "PLAIN", "SCRAM-SHA-256", "AUTODISCOVER"} {
			for _, op := range []string{"dial", "dialandsend", "quicksend"} {
				for _, pol := range []string{"mandatory", "opportunistic", "none", "implicit", "implicit-fallback"} {
					if op == "quicksend" && (pol != "opportunistic" || (auth != "" && auth != "AUTODISCOVER")) {
						continue // QuickSend has one policy and one auth type
					}
					base := func() C19Scenario {
						caps := []string{"8BITMIME", "ENHANCEDSTATUSCODES", "STARTTLS", authCaps(allMechs...)}
						c := ClientCfg{TLSPolicy: pol, AuthType: auth, User: "user-c19", Pass: "pass-c19-Zq8", DefaultDialer: true}
						s := C19Scenario{Client: c, Op: op, Server: refsmtpd.Config{Caps: caps, TLS: refsmtpd.TLSCfg{Cert: "valid"},
							Auth: refsmtpd.AuthCfg{User: "user-c19", Pass: "pass-c19-Zq8", Salt: []byte("saltsalt"), Iter: 64}}}
						if strings.HasPrefix(pol, "implicit") {
							s.Client.TLSPolicy = "implicit"
							s.Server.ImplicitTLS = true
							s.Server.Caps = []string{"8BITMIME", "ENHANCEDSTATUSCODES", authCaps(allMechs...)}
						}
						if pol == "implicit-fallback" {
							s.Client.SSLPort, s.DialFail = true, 1
						}
						if op != "dial" {
							s.Msgs = []MsgSpec{SimpleMsg("m1", "a@dest.example", "b@dest.example")}
						}
						return s
					}
					pre := "defaultdialer:" + pol + ":"
					{
						s := base()
						s.Step = pre + "none"
						add(s)
					}
					if op == "dialandsend" {
						c19Refusals(base, pre, add)
					}
					type stepDef struct {
						label, verb string
						nth         int
						on          bool
					}
					starttls := pol == "mandatory" || pol == "opportunistic"
					steps := []stepDef{{"GREET", "GREET", 1, true}, {"EHLO", "EHLO", 1, true}, {"STARTTLS", "STARTTLS", 1, starttls},
						{"EHLO-after-TLS", "EHLO", 2, starttls}, {"AUTH", "AUTH", 1, auth != ""}}
					if op != "dial" {
						steps = append(steps, stepDef{"NOOP", "NOOP", 1, true}, stepDef{"MAIL", "MAIL", 1, true}, stepDef{"RCPT-2", "RCPT", 2, true},
							stepDef{"DATA", "DATA", 1, true}, stepDef{"EOD", "EOD", 1, true}, stepDef{"RSET", "RSET", 1, true}, stepDef{"QUIT", "QUIT", 1, true})
					}
					for si, st := range steps {
						if !st.on {
							continue
						}
						for fi, fk := range failKinds {
							if tier != "thorough" && op != "quicksend" && (si+fi)%2 != 0 {
								continue
							}
							s := base()
							s.Step = pre + st.label
							s.Server.Rules = []refsmtpd.Rule{{Verb: st.verb, Nth: st.nth, Action: fk}}
							add(s)
							if st.verb != "QUIT" && (tier == "thorough" || (si+fi)%3 == 0) {
								s := base()
								s.Step = pre + st.label + "+QUIT"
								s.Server.Rules = []refsmtpd.Rule{{Verb: st.verb, Nth: st.nth, Action: fk}, {Verb: "QUIT", Nth: 1, Action: refsmtpd.Action{Code: 421, Text: "closing"}}}
								add(s)
							}
						}
					}
					if pol != "none" {
						for _, cert := range []string{"wrongname", "untrusted", "garbage", "stall"} {
							s := base()
							s.Step = pre + "TLS-handshake-" + cert
							s.Server.TLS.Cert = cert
							add(s)
						}
					}
					if strings.HasPrefix(pol, "implicit") {
						// the peer speaks plain SMTP where TLS was expected
						s := base()
						s.Step = pre + "peer-speaks-plain-smtp"
						s.Server.ImplicitTLS = false
						add(s)
					}
					for n := 1; n <= 10; n++ {
						if tier != "thorough" && (idx+n)%3 != 0 {
							continue
						}
						s := base()
						s.Step = fmt.Sprintf("%swrite-fails#%d", pre, n)
						s.Conn = sim.ConnFaults{WriteFailNth: n}
						add(s)
					}
					for n := 1; n <= 4; n++ {
						s := base()
						s.Step = fmt.Sprintf("%ssetdeadline-fails#%d", pre, n)
						s.Conn = sim.ConnFaults{SetDeadlineFailNth: n}
						add(s)
					}
				}
			}
		}
	}
	p.cache[key] = out
	return out
}

// c19Refusals: send errors the Client raises itself, with the connection open and healthy.
func c19Refusals(base func() C19Scenario, pre string, add func(C19Scenario)) {
	drop := func(caps []string, what string) []string {
		var out []string
		for _, c := range caps {
			if c != what {
				out = append(out, c)
			}
		}
		return out
	}
	{
		// an 8bit message for a server that does not announce 8BITMIME
		s := base()
		s.Step = pre + "client-refuses:8bit-without-8BITMIME"
		s.Msgs[0].Enc = "8bit"
		s.Server.Caps = drop(s.Server.Caps, "8BITMIME")
		add(s)
	}
	{
		// the same as the second message of a batch
		s := base()
		s.Step = pre + "client-refuses:8bit-without-8BITMIME:second-message"
		m2 := SimpleMsg("m2", "c@dest.example")
		m2.Enc = "8bit"
		s.Msgs = append(s.Msgs, m2)
		s.Server.Caps = drop(s.Server.Caps, "8BITMIME")
		add(s)
	}
	{
		s := base()
		s.Step = pre + "client-refuses:no-recipients"
		s.Msgs[0].To = nil
		add(s)
	}
	{
		s := base()
		s.Step = pre + "client-refuses:no-sender"
		s.Msgs[0].From = ""
		add(s)
	}
}

func (p *c19) Gen(seed uint64, i int, tier string) (any, bool) {
	l := p.build(seed, tier)
	// thorough: the whole enumeration eight times over, each round with its own draws for
	// everything the enumeration leaves open (client configuration swarm, timeouts, contexts,
	// schedules)
	rounds := 1
	if tier == "thorough" {
		rounds = 8
	}
	if len(l) == 0 || i >= len(l)*rounds {
		return nil, false
	}
	if r := i / len(l); r > 0 {
		l2 := p.build(sim.Derive(seed, 19, 777, uint64(r)), tier)
		if i%len(l) >= len(l2) {
			return nil, false
		}
		l = l2
	}
	s := l[i%len(l)]
	return &s, true
}

func (p *c19) Exec(t *testing.T, scAny any) Outcome {
	sc := scAny.(*C19Scenario)
	var out Outcome
	var env *NetEnv
	var call *CallRec
	var quitSeen bool
	before := 0 // connections opened before the judged call
	res := RunSim(t, sc.Sched, sim.Policy{Kind: "random"}, 0, time.Hour, func(k *sim.Kernel) (func(), func()) {
		env = &NetEnv{K: k, Srv: refsmtpd.New(k, sc.Server, TLSMat), Faults: []sim.ConnFaults{sc.Conn}, Host: sc.Client.host(), DialFail: sc.DialFail}
		return func() {
			if sc.Op == "quicksend" {
				if !setDefaultDial(env.Dial) {
					out.Infra = "QuickSend needs the dial seam"
					return
				}
				var auth *mail.AuthData
				if sc.Client.AuthType != "" {
					auth = mail.NewAuthData(sc.Client.User, sc.Client.Pass)
				}
				ms := sc.Msgs[0]
				call = env.Call("QuickSend", func() error {
					_, err := mail.QuickSend(sc.Client.host()+":25", auth, ms.From, ms.To, "quick", []byte("quick content\r\nsecond line\r\n"))
					return err
				})
				return
			}
			c, err := BuildClient(sc.Client, env.Dial, nil)
			if err != nil {
				out.Infra = "client construction: " + err.Error()
				return
			}
			var msgs []*Built
			for _, ms := range sc.Msgs {
				msgs = append(msgs, BuildMsg(ms, BuildOpts{SMIMEKeys: SMIME}))
			}
			ctx := context.Background()
			if sc.CancelUs > 0 {
				var cancel context.CancelFunc
				ctx, cancel = context.WithCancel(ctx)
				canceller := k.Go("canceller", func() {
					k.Sleep(time.Duration(sc.CancelUs) * time.Microsecond)
					cancel()
				})
				defer k.Join(canceller)
			}
			switch sc.Op {
			case "redial":
				if err := c.DialWithContext(context.Background()); err != nil {
					return // the first dial is not the judged one
				}
				before = len(env.Pipes)
				call = env.Call("DialWithContext", func() error { return c.DialWithContext(context.Background()) })
				if call.Err == nil && call.Panic == nil {
					_ = c.Close()
				}
			case "dial":
				call = env.Call("DialWithContext", func() error { return c.DialWithContext(ctx) })
				if call.Err == nil && call.Panic == nil {
					// not judged: tidy up
					_ = c.Close()
				}
			case "dialandsend":
				call = env.Call("DialAndSend", func() error {
					var ms []*mailMsg
					for _, b := range msgs {
						ms = append(ms, b.Msg)
					}
					if sc.CancelUs > 0 {
						return c.DialAndSendWithContext(ctx, ms...)
					}
					return c.DialAndSend(ms...)
				})
			}
		}, env.Freeze
	})
	out.SimNs, out.Steps, out.Digest = res.VirtualNs, res.Steps, res.Digest
	if out.Infra != "" {
		return out
	}
	if res.BubbleErr != "" {
		out.Infra = "bubble: " + res.BubbleErr
		return out
	}
	if res.Adoptions > 0 {
		out.stat("probe.goroutine-of-the-program-adopted", res.Adoptions)
	}
	if call == nil && sc.Op == "redial" {
		out.stat("not-judged.first-dial-failed", 1)
		return out
	}
	if call == nil {
		out.Infra = "client task did not run"
		return out
	}
	for _, e := range env.Srv.H.Events {
		if e.Kind == "cmd" && e.Verb == "QUIT" {
			quitSeen = true
		}
	}
	out.Key = fmt.Sprintf("%s|%s|%s|%s|%v|%s", sc.Op, sc.Client.TLSPolicy, sc.Client.AuthType, sc.Step, ruleSig(sc.Server.Rules), errClass(call.Err))
	out.Nontrivial = sc.Step != "none"
	out.stat("runs."+sc.Op, 1)
	if len(sc.Server.Rules) > 0 {
		k := sc.Server.Rules[len(sc.Server.Rules)-1].Kind
		if k == "" {
			k = fmt.Sprintf("reply-%dyz", sc.Server.Rules[len(sc.Server.Rules)-1].Code/100)
		}
		out.stat("fault.configured."+k, 1)
	}
	if call.Panic != nil {
		out.violate("C19:panic:"+sc.Op+":step="+sc.Step, "%s panicked: %v\n%s", call.Name, call.Panic, call.PanicStack)
		return out
	}
	if !call.Returned {
		// blocking for ever is C17's subject; here the run is simply not judged
		out.stat("not-judged.call-did-not-return", 1)
		out.stat("noreturn."+sc.Step+"/"+ruleSig(sc.Server.Rules)+"/"+res.Verdict.String()+fmt.Sprint(res.Unfinished), 1)
		return out
	}
	opened := len(env.Pipes)
	if call.Err != nil {
		out.stat("op-failed", 1)
		if opened > 0 {
			out.stat("fault.fired.failed-after-open", 1)
		}
		for _, pp := range env.Pipes[before:] {
			if !pp.Client.Closed() || pp.Client.CloseStep > call.EndStep {
				out.violate("C19:leak:"+sc.Op+":step="+sc.Step,
					"%s returned error %q after the connection was opened, but Close was never called on it (policy=%s auth=%s rules=%s)",
					call.Name, errText(call.Err), sc.Client.TLSPolicy, sc.Client.AuthType, ruleSig(sc.Server.Rules))
			}
		}
	} else {
		out.stat("op-succeeded", 1)
		if sc.Op == "dialandsend" || sc.Op == "quicksend" {
			for _, pp := range env.Pipes {
				if !pp.Client.Closed() {
					out.violate("C19:leak:"+sc.Op+":success", "%s returned nil but the connection is still open", call.Name)
				}
			}
			if !quitSeen {
				out.violate("C19:noquit:"+sc.Op+":success", "%s returned nil but the server never saw QUIT", call.Name)
			}
		}
	}
	return out
}

func ruleSig(rs []refsmtpd.Rule) string {
	var b strings.Builder
	for _, r := range rs {
		k := r.Kind
		if k == "" {
			k = "reply"
		}
		fmt.Fprintf(&b, "%s#%d=%s/%d;", r.Verb, r.Nth, k, r.Code)
	}
	return b.String()
}

func errClass(err error) string {
	if err == nil {
		return "ok"
	}
	s := err.Error()
	if len(s) > 40 {
		s = s[:40]
	}
	return s
}

func (p *c19) Shrink(scAny any) []any {
	sc := scAny.(*C19Scenario)
	var out []any
	if len(sc.Msgs) > 0 && len(sc.Msgs[0].To) > 1 {
		c := *sc
		c.Msgs = []MsgSpec{SimpleMsg("m1", "a@dest.example")}
		out = append(out, &c)
	}
	if sc.Client.AuthType != "" && !strings.HasPrefix(sc.Step, "AUTH") {
		c := *sc
		c.Client.AuthType = ""
		out = append(out, &c)
	}
	if sc.Client.TLSPolicy != "none" && !strings.Contains(sc.Step, "TLS") {
		c := *sc
		c.Client.TLSPolicy = "none"
		out = append(out, &c)
	}
	return out
}

func (p *c19) Info() PropInfo {
	return PropInfo{
		Rule: "enumeration (thorough: eight rounds of it, each with fresh draws for what the enumeration leaves open): {DialWithContext, DialAndSend, a second DialWithContext on a connected Client whose first connection refuses, loses or garbles its QUIT; the caller's context cancelled by another task 0.15..2.5 ms into the call; the n-th SetDeadline on the connection failing} x TLS policy {mandatory, opportunistic, none} x auth type x failing step (greeting, EHLO, EHLO+HELO, STARTTLS missing/refused, TLS handshake failure kinds, post-TLS EHLO, AUTH missing/mechanism missing/bad password/each AUTH step, NOOP, MAIL, each RCPT, DATA, end-of-data, RSET, QUIT) x failure kind {421, 451, 550, 554, disconnect, garbage reply, reply-then-close}, each also combined with a second fault on the clean-up path (QUIT refused / dropped / garbled, RSET refused / dropped; thorough: all pairs, quick: every fifth), and connections made through the fallback port; the same steps through go-mail's own dialers (no WithDialContextFunc): net.Dialer under the three STARTTLS policies, tls.Dialer for implicit TLS (handshake failure kinds, a peer that speaks plain SMTP), WithSSLPort(true) with a failing first dial, and QuickSend; a case is non-trivial when a failure is injected; distinct = distinct (op, policy, auth, step, rule, error class); DialAndSend with send errors the Client raises itself on a healthy connection (an 8bit message for a server without 8BITMIME, as first or second message of the batch; a message without recipients; a message without sender)",
		Assumptions: []string{"the connection handed out by the dial function is the only transport resource; Close on it is what 'closed' means (for TLS-wrapped connections the underlying simulated connection's Close counts)",
			"calls that never return are not judged here (C17)"},
		Real:       []string{"github.com/wneessen/go-mail (Client, smtp.Client, all SASL mechanisms)", "net/textproto", "crypto/tls on both ends"},
		Stubbed:    []string{"TCP (sim.Pipe)", "SMTP server (refsmtpd automaton, refsasl)", "clock (synctest bubble)", "crypto/rand (seeded)", "trust store (simulator CA via SSL_CERT_FILE)", "the socket under go-mail's default dialers (type names net.Dialer / tls.Dialer rewritten to simhook.NetDialer / simhook.TLSDialer in the scratch copy; TLSDialer.DialContext follows crypto/tls.(*Dialer).DialContext step by step, 25 lines)"},
		NotCovered: []string{"unix sockets", "the operating system's dial errors (DNS, refused, unreachable) other than a failing first dial"},
		Exhaustive: func(string) bool { return true },
		QuickRuns:  0, ThoroughRuns: 0, QuickBudget: 90 * time.Second, ThoroughBudget: 20 * time.Minute,
	}
}
