package props

import (
	"os"
	"runtime"
	"strconv"
	"strings"
	"sync/atomic"
	"time"
)

// Hang monitor. The kernel decides which task runs, but it cannot make a task come back: a task
// that blocks on a real sync.Mutex which is never released (a lock leaked on an error path, a
// non-reentrant lock taken twice) or spins never reaches its next yield point, the kernel waits
// for it, and the scenario never ends. That is a deterministic consequence of the scenario — the
// same scenario hangs again in a fresh process — so it is reported as such instead of being left
// to the driver's watchdog: a goroutine outside every bubble (real clock) watches how long the
// scenario in progress has been running and, past the limit, records the scenario and ends the
// process. The limit (60 s of real time; scenarios take milliseconds) is the one place where
// real time enters a verdict, and only for "did not finish at all".

var (
	// hangGen: number of the scenario in progress (0 = idle); hangTick: advanced at the start of
	// every execution inside it. Neither holds a time: the code that advances them may run
	// inside a bubble, where time.Now is the virtual clock. The watcher, outside every bubble,
	// stamps with the real clock the moment it first sees a new value.
	hangGen  atomic.Int64
	hangSeq  atomic.Int64
	hangTick atomic.Int64
	hangOnce atomic.Bool
	// hangNote: set when the kernel has reached a verdict and releases the tasks to unwind; a
	// task that then blocks on a real lock keeps the bubble from ending. The watcher waits only
	// 10 s from the moment it first sees the note.
	hangNote atomic.Value
)

func hangLimit() time.Duration {
	if v, err := strconv.Atoi(os.Getenv("VERIF_HANG_S")); err == nil && v > 0 {
		return time.Duration(v) * time.Second
	}
	return 60 * time.Second
}

// hangBegin marks the start of a scenario, hangEnd its end.
func hangBegin() { hangNote.Store(""); hangTick.Add(1); hangGen.Store(hangSeq.Add(1)) }
func hangEnd()   { hangGen.Store(0) }

// hangTouch restarts the clock of the scenario in progress. A scenario may consist of many
// executions (C12 renders one message shape once per byte offset and fault mode, C09 parses one
// stored message under hundreds of damages): the limit applies to each execution, not to their
// sum. Called at the start of every bubble, of every parse and of every render.
func hangTouch() { hangTick.Add(1) }

// startHangMonitor starts the watcher once per process. onHang runs on the watcher goroutine
// while the hung goroutines are still where they are stuck; it must end the process.
func startHangMonitor(onHang func(stacks string)) {
	if hangOnce.Swap(true) {
		return
	}
	limit := hangLimit()
	go func() {
		var noteFor, noteAt, lastTick, s int64
		for {
			time.Sleep(500 * time.Millisecond)
			gen := hangGen.Load()
			if gen == 0 {
				continue
			}
			now := time.Now().UnixNano()
			if tk := hangTick.Load(); tk != lastTick || s == 0 {
				lastTick, s = tk, now // progress since the last look: the clock starts again
			}
			note, _ := hangNote.Load().(string)
			if note != "" && noteFor != gen {
				noteFor, noteAt = gen, now
			}
			unwinding := note != "" && noteFor == gen && time.Duration(now-noteAt) > 10*time.Second
			if time.Duration(now-s) < limit && !unwinding {
				continue
			}
			st := mailStacks()
			if note != "" {
				st = note + "; " + st
			}
			onHang(st)
			os.Exit(3)
		}
	}()
}

// mailStacks returns the stacks of the goroutines that are inside go-mail code.
func mailStacks() string {
	buf := make([]byte, 1<<20)
	buf = buf[:runtime.Stack(buf, true)]
	var keep []string
	for _, g := range strings.Split(string(buf), "\n\n") {
		if !strings.Contains(g, "github.com/wneessen/go-mail") {
			continue
		}
		lines := strings.Split(g, "\n")
		var short []string
		for i, l := range lines {
			if i == 0 || (strings.Contains(l, "go-mail") && !strings.HasPrefix(l, "\t")) || strings.HasPrefix(l, "sync.") || strings.HasPrefix(l, "internal/sync.") {
				if j := strings.Index(l, "("); j > 0 && i > 0 {
					l = l[:j]
				}
				short = append(short, strings.TrimSpace(l))
			}
			if len(short) >= 9 {
				break
			}
		}
		keep = append(keep, strings.Join(short, " < "))
		if len(keep) >= 6 {
			break
		}
	}
	return strings.Join(keep, " || ")
}
