package props

import (
	"errors"
	"fmt"
	"io"
	"runtime/debug"
	"strings"
	"testing"
	"time"

	"verif/sim/sim"
)

// C12 — Render failures are reported: never a panic, never silent success.
//
// The "disk" here is the io.Writer handed to Msg.WriteTo and the content producers behind the
// message. Enumerated per message shape: the sink failing at EVERY byte offset k of the output
// in four modes (persistent from k with a short write, persistent with a whole-write refusal,
// one-shot at k, short write reported by count only... see sinkModes), every producer failing
// before its first byte / in the middle / after its last byte, and sampled combinations of one
// sink fault and one producer fault. Oracle: no panic; error non-nil whenever a fault fired;
// returned count == bytes the sink accepted; fault-free: count == len(output).

type C12Scenario struct {
	Msg MsgSpec `json:"msg"`
	// Mode: "" (enumerate all sink modes and offsets, all producer faults) or one of sinkModes /
	// "producer" / "combo" to pin a single case for replay.
	Mode     string `json:"mode,omitempty"`
	K        int    `json:"k,omitempty"`
	Producer int    `json:"producer,omitempty"` // index of the failing producer (producer/combo)
	FailPos  string `json:"failPos,omitempty"`  // start | mid | end
	Seed     uint64 `json:"seed"`
	Thorough bool   `json:"thorough,omitempty"`
}

var sinkModes = []string{"persistent-short", "persistent-whole", "oneshot-short", "oneshot-whole"}

type c12 struct{}

func init() { register(&c12{}) }

func (*c12) ID() string                     { return "C12" }
func (*c12) Level() string                  { return "fault_enumeration" }
func (*c12) Decode(raw []byte) (any, error) { return decodeInto[C12Scenario](raw) }

var errSink = errors.New("injected sink failure")

// faultSink accepts bytes until the stream offset reaches K, then fails according to Mode.
type faultSink struct {
	Mode     string
	K        int
	Accepted int
	Fired    int
	done     bool
	data     []byte
}

func (s *faultSink) Write(p []byte) (int, error) {
	if s.Mode == "" || s.K < 0 {
		s.Accepted += len(p)
		s.data = append(s.data, p...)
		return len(p), nil
	}
	persistent := strings.HasPrefix(s.Mode, "persistent")
	if s.done && persistent {
		s.Fired++
		return 0, errSink
	}
	if s.done || s.Accepted+len(p) <= s.K {
		s.Accepted += len(p)
		s.data = append(s.data, p...)
		return len(p), nil
	}
	// this write crosses offset K
	s.done = true
	s.Fired++
	n := 0
	if strings.HasSuffix(s.Mode, "short") {
		n = s.K - s.Accepted
	}
	s.Accepted += n
	s.data = append(s.data, p[:n]...)
	return n, errSink
}

// ShapeForC12 draws the i-th shape; the first shapes are fixed corner cases.
func shapeForC12(seed uint64, i int) MsgSpec {
	r := sim.NewRand(sim.Derive(seed, 12, uint64(i)))
	o := ShapeOpts{MaxAlt: 2, MaxEmbed: 2, MaxAttach: 2, MaxContent: 90, CRLFOnly: true,
		Encs:     []string{"quoted-printable", "base64", "8bit", "7bit"},
		FileEncs: []string{"", "base64", "8bit", "7bit"}, Sources: []string{"writer", "readseeker", "fs", "reader", "file", "tmpl", "htmpl"}, AllowSMIME: true}
	tok := fmt.Sprintf("s%d", i)
	txt := func(s string) ContentSpec { return ContentSpec{Data: []byte(s)} }
	switch i {
	case 0: // single part, each encoding at depth 0
		return MsgSpec{Token: tok, From: "a@b.example", To: []string{"c@d.example"}, Subject: "s", Enc: "7bit",
			Parts: []PartSpec{{Type: "text/plain", Content: txt("seven bit body\r\nsecond line\r\n")}}}
	case 1:
		return MsgSpec{Token: tok, From: "a@b.example", To: []string{"c@d.example"}, Subject: "s", Enc: "8bit",
			Parts: []PartSpec{{Type: "text/plain", Content: txt("eight bit body\r\n")}}}
	case 2:
		return MsgSpec{Token: tok, From: "a@b.example", To: []string{"c@d.example"}, Subject: "s", Enc: "base64",
			Parts: []PartSpec{{Type: "text/plain", Content: txt("base64 body\r\n")}}}
	case 3: // alternative
		return MsgSpec{Token: tok, From: "a@b.example", To: []string{"c@d.example"}, Subject: "s",
			Parts: []PartSpec{{Type: "text/plain", Content: txt("plain\r\n")}, {Type: "text/html", Content: txt("<p>html</p>\r\n")}}}
	case 4: // mixed > related > alternative
		return MsgSpec{Token: tok, From: "a@b.example", To: []string{"c@d.example"}, Subject: "s",
			Parts:  []PartSpec{{Type: "text/plain", Content: txt("plain\r\n")}, {Type: "text/html", Content: txt("<p>html</p>\r\n")}},
			Embeds: []FileSpec{{Name: "e.png", Content: txt("embedded")}}, Attach: []FileSpec{{Name: "a.txt", Content: txt("attached")}}}
	case 5: // only a file, at depth 0
		return MsgSpec{Token: tok, From: "a@b.example", To: []string{"c@d.example"}, Subject: "s",
			Attach: []FileSpec{{Name: "a.txt", Content: txt("attached")}}}
	case 6: // S/MIME
		return MsgSpec{Token: tok, From: "a@b.example", To: []string{"c@d.example"}, Subject: "s", SMIME: "ecdsa",
			Parts: []PartSpec{{Type: "text/plain", Content: txt("signed body\r\n")}}}
	case 7: // no part at all
		return MsgSpec{Token: tok, From: "a@b.example", To: []string{"c@d.example"}, Subject: "s"}
	}
	m := GenMsg(r, tok, o)
	if r.Chance(1, 4) {
		// preformatted header fields (written by a path of their own) and fields with several values
		m.Preform = [][2]string{{"X-Pre-Signature", "v=1; a=sim;\r\n h=from:to:subject;\r\n b=abcdef"}, {"X-Pre-Two", "two"}}
		m.Headers = append(m.Headers, [2]string{"Keywords", "one\x1ftwo\x1fthree"})
	}
	return m
}

func (p *c12) Gen(seed uint64, i int, tier string) (any, bool) {
	n := 160
	if tier == "thorough" {
		n = 5000
	}
	if i >= n {
		return nil, false
	}
	return &C12Scenario{Msg: shapeForC12(seed, i), Seed: sim.Derive(seed, 12, uint64(i), 1), Thorough: tier == "thorough"}, true
}

type renderResult struct {
	n     int64
	err   error
	panic any
	stack string
	sink  *faultSink
	built *Built
}

func renderWith(t *testing.T, seed uint64, spec MsgSpec, mode string, k int) renderResult {
	// the real-time limit of the hang monitor applies to one render, not to the thousands of
	// renders (one per byte offset and fault mode) that make up a scenario
	hangTouch()
	var rr renderResult
	rr.sink = &faultSink{Mode: mode, K: k}
	rich := mode == "rich"
	if rich {
		rr.sink.Mode = ""
	}
	b := BuildMsg(spec, BuildOpts{SMIMEKeys: SMIME})
	rr.built = b
	if b.BuildErr != nil {
		rr.err = b.BuildErr
		return rr
	}
	func() {
		defer func() {
			if r := recover(); r != nil {
				rr.panic = r
				rr.stack = string(debug.Stack())
			}
		}()
		// the destination is an io.Writer of whatever dynamic type the caller has: a pointer, a
		// function adapter, a struct value that holds a slice (the latter two cannot be compared)
		var w io.Writer = rr.sink
		switch {
		case rich || (k >= 0 && k%4 == 3):
			// a destination that offers more than Write (a bufio.Writer, an *os.File, a
			// compressor): whatever else the library finds on it, the verdict of the render is
			// the verdict of the writes and of the producers
			w = &richSink{s: rr.sink}
		case k >= 0 && k%3 == 1:
			w = writerFunc(rr.sink.Write)
		case k >= 0 && k%3 == 2:
			w = sliceSink{s: rr.sink, pad: []byte{0}}
		}
		rr.n, rr.err = b.Msg.WriteTo(w)
	}()
	return rr
}

type writerFunc func([]byte) (int, error)

func (f writerFunc) Write(p []byte) (int, error) { return f(p) }

// richSink has the optional methods destinations commonly have; all of them end in the sink's
// Write, Flush/Sync/Close have nothing to report.
type richSink struct{ s *faultSink }

func (r *richSink) Write(p []byte) (int, error)       { return r.s.Write(p) }
func (r *richSink) WriteString(p string) (int, error) { return r.s.Write([]byte(p)) }
func (r *richSink) Flush() error                      { return nil }
func (r *richSink) Sync() error                       { return nil }
func (r *richSink) Close() error                      { return nil }
func (r *richSink) ReadFrom(src io.Reader) (int64, error) {
	var n int64
	buf := make([]byte, 512)
	for {
		k, err := src.Read(buf)
		if k > 0 {
			w, werr := r.s.Write(buf[:k])
			n += int64(w)
			if werr != nil {
				return n, werr
			}
		}
		if err == io.EOF {
			return n, nil
		}
		if err != nil {
			return n, err
		}
	}
}

type sliceSink struct {
	s   *faultSink
	pad []byte
}

func (s sliceSink) Write(p []byte) (int, error) { return s.s.Write(p) }

func panicSite(stack string) string {
	// first frame inside go-mail below the panic
	lines := strings.Split(stack, "\n")
	for i, l := range lines {
		if strings.Contains(l, "github.com/wneessen/go-mail.") && !strings.Contains(l, "props.") {
			f := strings.TrimSpace(l)
			if j := strings.Index(f, "("); j > 0 {
				f = f[:strings.LastIndex(f, "(")]
			}
			f = strings.TrimPrefix(f, "github.com/wneessen/go-mail.")
			_ = i
			return f
		}
	}
	return "unknown"
}

func (p *c12) judge(out *Outcome, sc *C12Scenario, rr renderResult, what string, narrowed *C12Scenario, fullLen int) {
	note := func(tag string, f string, a ...any) {
		if out.Narrowed == nil {
			out.Narrowed = map[string]any{}
		}
		if _, ok := out.Narrowed[tag]; !ok {
			out.Narrowed[tag] = narrowed
		}
		out.violate(tag, f, a...)
	}
	if rr.panic != nil {
		note("C12:panic:"+panicSite(rr.stack), "WriteTo panicked (%s): %v\n%s", what, rr.panic, rr.stack)
		return
	}
	fired := rr.sink.Fired > 0
	prodFired := rr.built != nil && rr.built.AnyFired()
	if (fired || prodFired) && rr.err == nil {
		kind := "sink"
		if prodFired && !fired {
			kind = "producer"
		}
		mode := narrowed.Mode
		if kind == "producer" {
			mode = "producer-" + narrowed.FailPos
		}
		note("C12:silent-success:"+kind+":"+mode, "WriteTo returned a nil error although a fault fired (%s); count returned %d, sink accepted %d", what, rr.n, rr.sink.Accepted)
	}
	if rr.n != int64(rr.sink.Accepted) {
		cls := "fault"
		if !fired && !prodFired {
			cls = "fault-free"
		}
		note("C12:count:"+cls+":"+encClass(sc.Msg), "WriteTo returned count %d, the sink accepted %d bytes (%s)", rr.n, rr.sink.Accepted, what)
	}
	if !fired && !prodFired {
		if rr.err != nil {
			note("C12:error-without-fault", "WriteTo failed without any injected fault (%s): %v", what, rr.err)
		}
	}
}

func encClass(m MsgSpec) string {
	if len(m.Parts) == 1 && len(m.Embeds)+len(m.Attach) == 0 && m.SMIME == "" {
		e := m.Parts[0].Enc
		if e == "" {
			e = m.Enc
		}
		if e == "" {
			e = "quoted-printable"
		}
		return "single-part-" + e
	}
	if len(m.Parts) == 0 && len(m.Embeds)+len(m.Attach) == 1 {
		return "single-file"
	}
	return "multipart"
}

func (p *c12) Exec(t *testing.T, scAny any) Outcome {
	var out Outcome
	// one bubble and one seeded crypto/rand stream per scenario: the clock (Date, signing time)
	// is virtual and every render of the scenario is a function of the seed
	pan, st := RunPlain(t, scAny.(*C12Scenario).Seed, func() { out = p.exec(t, scAny) })
	if pan != nil {
		out.Infra = fmt.Sprintf("harness panic: %v\n%s", pan, st)
	}
	return out
}

func (p *c12) exec(t *testing.T, scAny any) Outcome {
	sc := scAny.(*C12Scenario)
	var out Outcome
	healthy := sc.Msg.Healthy()
	base := renderWith(t, sc.Seed, healthy, "", -1)
	if base.built != nil && base.built.BuildErr != nil {
		out.Infra = "message construction: " + base.built.BuildErr.Error()
		return out
	}
	full := base.sink.Accepted
	out.Digest = hashKey(string(base.sink.data))
	out.Key = fmt.Sprintf("%s|%d|%v", sc.Msg.Token, full, sc.Mode)
	out.Nontrivial = true
	evals := 1
	p.judge(&out, sc, base, "fault-free render", &C12Scenario{Msg: healthy, Mode: "none", Seed: sc.Seed}, -1)
	if base.panic != nil || base.err != nil {
		return out
	}
	pos := func(c *ContentSpec, where string) {
		c.Fail = true
		switch where {
		case "start":
			c.FailAt = 0
		case "mid":
			c.FailAt = len(c.Data) / 2
		default:
			c.FailAt = len(c.Data)
		}
	}
	runSink := func(mode string, k int) {
		rr := renderWith(t, sc.Seed, healthy, mode, k)
		evals++
		out.stat("fault.fired.sink_"+mode, b2i(rr.sink.Fired > 0))
		p.judge(&out, sc, rr, fmt.Sprintf("sink mode %s at offset %d of %d", mode, k, full), &C12Scenario{Msg: healthy, Mode: mode, K: k, Seed: sc.Seed}, full)
	}
	runProducer := func(j int, where string, mode string, k int) {
		spec := healthy.clone()
		if strings.HasSuffix(where, "!open") {
			if !spec.canFailOpen(j) {
				return
			}
		} else if strings.HasSuffix(where, "!close") {
			if !spec.canFailClose(j) {
				return
			}
		} else if strings.HasSuffix(where, "!isdir") {
			if !spec.canFailIsDir(j) {
				return
			}
		} else if strings.HasSuffix(where, "!seek") {
			if !spec.canFailSeek(j) {
				return
			}
		} else if !spec.canFail(j) {
			return
		}
		// "start#1" = only the first invocation of the producer fails, "#2" only the second
		// (an S/MIME message invokes every producer twice per WriteTo)
		// "mid!eof" = the producer fails with an error of that identity (ErrKinds)
		w := where
		if i := strings.Index(w, "!"); i >= 0 {
			spec.contentAt(j).ErrKind = w[i+1:]
			w = w[:i]
		}
		if i := strings.Index(w, "#"); i >= 0 {
			spec.contentAt(j).FailOnCall = int(w[i+1] - '0')
		}
		pos(spec.contentAt(j), strings.SplitN(w, "#", 2)[0])
		rr := renderWith(t, sc.Seed, spec, mode, k)
		evals++
		if rr.built != nil && rr.built.AnyFired() {
			out.stat("fault.fired.producer_"+strings.NewReplacer("#", "_call", "!", "_err-").Replace(where), 1)
		}
		m := "producer"
		if mode != "" {
			m = "combo"
		}
		p.judge(&out, sc, rr, fmt.Sprintf("producer %d failing at %s, sink mode %q at %d", j, where, mode, k),
			&C12Scenario{Msg: healthy, Mode: m, Producer: j, FailPos: where, K: k, Seed: sc.Seed}, full)
		if mode == "" {
			// the same failure, rendered into a destination that has Flush, WriteString, ReadFrom
			rr := renderWith(t, sc.Seed, spec, "rich", k)
			evals++
			out.stat("probe.producer-failure-into-rich-destination", 1)
			p.judge(&out, sc, rr, fmt.Sprintf("producer %d failing at %s, healthy destination with Flush/WriteString/ReadFrom", j, where),
				&C12Scenario{Msg: healthy, Mode: "producer-rich", Producer: j, FailPos: where, K: k, Seed: sc.Seed}, full)
		}
	}
	switch sc.Mode {
	case "none":
	case "":
		// Signing dominates the cost of S/MIME shapes (RSA: ~9 ms per render) and happens before
		// the sink is touched, so for those shapes the offsets are swept with a stride and a
		// seeded phase instead of one by one; all other shapes are swept exhaustively.
		stride := 1
		switch {
		case sc.Msg.SMIME == "rsa":
			stride = 48
			if sc.Thorough {
				stride = 12
			}
		case sc.Msg.SMIME != "":
			stride = 6
			if sc.Thorough {
				stride = 1
			}
		}
		covered := 0
		for mi, mode := range sinkModes {
			phase := 0
			if stride > 1 {
				phase = int((sc.Seed >> uint(8*mi)) % uint64(stride))
			}
			for k := phase; k < full; k += stride {
				runSink(mode, k)
				covered++
			}
		}
		out.stat("offsets.covered", covered)
		out.statShape(healthy)
		out.stat("offsets.total", full*len(sinkModes))
		for j := 0; j < healthy.producerCount(); j++ {
			wheres := []string{"start", "mid", "end"}
			if healthy.SMIME != "" {
				wheres = append(wheres, "start#1", "mid#1", "end#1", "start#2", "mid#2", "end#2")
			}
			for _, where := range wheres {
				runProducer(j, where, "", -1)
			}
			// the identity of the producer's error must not matter (io.EOF and friends included)
			for _, ek := range ErrKinds[1:] {
				for _, where := range []string{"start", "mid", "end"} {
					runProducer(j, where+"!"+ek, "", -1)
				}
			}
			// the source has vanished between attaching and rendering
			runProducer(j, "start!open", "", -1)
			// the source can be read but not rewound
			runProducer(j, "end!seek", "", -1)
			// the path opens, but reading it fails at once (it is a directory now)
			runProducer(j, "start!isdir", "", -1)
			// everything is read, closing the source reports an error
			runProducer(j, "end!close", "", -1)
		}
		// combinations: one producer fault and one sink fault, sampled
		r := sim.NewRand(sc.Seed)
		if n := healthy.producerCount(); n > 0 && full > 0 {
			for c := 0; c < 40; c++ {
				runProducerCombo(r, runProducer, n, full)
			}
		}
	case "producer", "producer-rich":
		runProducer(sc.Producer, sc.FailPos, "", -1)
	case "combo":
		// the sink mode is not stored separately for combos: replay all modes at K
		for _, mode := range sinkModes {
			runProducer(sc.Producer, sc.FailPos, mode, sc.K)
		}
	default:
		runSink(sc.Mode, sc.K)
	}
	out.Evals = evals
	return out
}

func runProducerCombo(r *sim.Rand, run func(j int, where, mode string, k int), n, full int) {
	run(r.Intn(n), sim.Pick(r, []string{"start", "mid", "end"}), sim.Pick(r, sinkModes), r.Intn(full))
}

func b2i(b bool) int {
	if b {
		return 1
	}
	return 0
}

func (p *c12) Shrink(scAny any) []any {
	sc := scAny.(*C12Scenario)
	var out []any
	m := sc.Msg
	try := func(f func(c *MsgSpec)) {
		c := *sc
		c.Msg = m.clone()
		f(&c.Msg)
		out = append(out, &c)
	}
	if len(m.Attach) > 0 && !(strings.HasPrefix(sc.Mode, "producer") || sc.Mode == "combo") {
		try(func(c *MsgSpec) { c.Attach = c.Attach[:len(c.Attach)-1] })
	}
	if len(m.Embeds) > 0 && !(strings.HasPrefix(sc.Mode, "producer") || sc.Mode == "combo") {
		try(func(c *MsgSpec) { c.Embeds = c.Embeds[:len(c.Embeds)-1] })
	}
	if len(m.Parts) > 1 && !(strings.HasPrefix(sc.Mode, "producer") || sc.Mode == "combo") {
		try(func(c *MsgSpec) { c.Parts = c.Parts[:len(c.Parts)-1] })
	}
	if m.SMIME != "" {
		try(func(c *MsgSpec) { c.SMIME = "" })
	}
	if len(m.Cc) > 0 || len(m.Bcc) > 0 {
		try(func(c *MsgSpec) { c.Cc, c.Bcc = nil, nil })
	}
	return out
}

func (p *c12) Info() PropInfo {
	return PropInfo{
		Rule: "per message shape (8 fixed corner shapes: single part 7bit/8bit/base64 at top level, alternative, mixed>related>alternative, a sole file, S/MIME, no part; then generated shapes over 0..3 alternatives/embeds/attachments x QP/base64/8bit/7bit x file sources x optional S/MIME): the sink (a pointer, a function adapter, a struct value holding a slice, or a destination that also has Flush/Sync/Close/WriteString/ReadFrom, by offset; every producer failure additionally into a healthy destination of the last kind) fails at EVERY byte offset of the output in four modes (S/MIME-signed shapes: every 6th offset with ECDSA, every 48th with RSA in the quick tier, every offset / every 12th in the thorough tier, seeded phase - signing costs up to 9 ms per render) (persistent or one-shot x short write or whole-write refusal), every producer fails at {before first byte, middle, after last byte} with seven error identities, fs.FS and file-system sources that cannot be opened any more at render time, ReadSeeker sources that read but cannot be rewound, plus 40 sampled producer+sink combinations; evaluations = renders; non-trivial = every shape; distinct = distinct shapes (token, output length)",
		Assumptions: []string{"a sink that returns n < len(p) without an error breaks the io.Writer contract and is not injected",
			"'bytes the destination accepted' is the sum of the counts the sink returned"},
		Real:        []string{"go-mail Msg.WriteTo, msgWriter, base64LineBreaker, S/MIME signing (internal/pkcs7)", "mime/multipart, mime/quotedprintable, encoding/base64"},
		Stubbed:     []string{"destination io.Writer (fault-injecting sink)", "content producers (fault-injecting writers, readers, fs.FS)", "crypto/rand (seeded)"},
		Exhaustive:  func(string) bool { return false },
		QuickBudget: 100 * time.Second, ThoroughBudget: 25 * time.Minute,
	}
}

var _ = time.Second
