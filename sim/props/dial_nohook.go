//go:build !simhook && !simdial

package props

import mail "github.com/wneessen/go-mail"

// Without the scratch copy go-mail's default dialers open real sockets; scenarios that use them
// are not generated and refuse to run.
const DialSeam = false

func setDefaultDial(dial mail.DialContextFunc) bool { return false }
