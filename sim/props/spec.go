// Package props holds the per-property scenario generators, executors and oracles, plus the
// shared harness that puts the real go-mail client on top of the simulated transport and the
// reference server.
package props

import (
	"bytes"
	"context"
	"crypto/tls"
	"errors"
	"fmt"
	ht "html/template"
	"io"
	"io/fs"
	"net"
	"os"
	"path/filepath"
	"strings"
	"testing/fstest"
	tt "text/template"
	"time"

	mail "github.com/wneessen/go-mail"
	mlog "github.com/wneessen/go-mail/log"
	"github.com/wneessen/go-mail/smtp"
)

// ---------- client ----------

// ClientCfg describes the mail.Client under test.
type ClientCfg struct {
	Host      string   `json:"host,omitempty"`      // default mx.sim.example
	TLSPolicy string   `json:"tlsPolicy,omitempty"` // mandatory (library default) | opportunistic | none | implicit
	AuthType  string   `json:"authType,omitempty"`  // "" = none; a go-mail SMTPAuthType; or CUSTOM-PLAIN / CUSTOM-LOGIN
	User      string   `json:"user,omitempty"`
	Pass      string   `json:"pass,omitempty"`
	HELO      string   `json:"helo,omitempty"`
	TimeoutMs int      `json:"timeoutMs,omitempty"`
	DSN       bool     `json:"dsn,omitempty"`
	DSNRet    string   `json:"dsnRet,omitempty"`
	DSNNotify []string `json:"dsnNotify,omitempty"`
	NoNoop    bool     `json:"noNoop,omitempty"`
	// PolicyVia: the way the TLS policy reaches the Client. "" = WithTLSPolicy (WithTLSPortPolicy
	// when FallbackPort) at construction; "setter" = constructed with a weaker policy, then
	// SetTLSPolicy; "port-setter" = WithPort(2525) and a weaker policy, then SetTLSPortPolicy;
	// "port-option" = WithPort(2525) followed by WithTLSPortPolicy; "twice" = WithTLSPortPolicy
	// with a weaker policy (which moves the port) followed by WithTLSPortPolicy. In every case
	// the policy in force is TLSPolicy.
	PolicyVia string `json:"policyVia,omitempty"`
	// SessionCache: the caller's tls.Config has a ClientSessionCache (TLS session resumption on
	// later connections).
	SessionCache bool `json:"sessionCache,omitempty"`
	// TLSConfigNoName: the caller supplies its own tls.Config that sets no ServerName (only a
	// minimum version): whatever name is verified then, it must be the configured host's.
	TLSConfigNoName bool `json:"tlsConfigNoName,omitempty"`
	// Sibling: another Client, for this host, is created right after this one and never used (a
	// process that talks to several servers); nothing of it may leak into this Client.
	Sibling     string `json:"sibling,omitempty"`
	Debug       bool   `json:"debug,omitempty"`
	LogAuthData bool   `json:"logAuthData,omitempty"`
	Logger      string `json:"logger,omitempty"` // capture | std | json
	// FallbackPort configures the TLS policy through WithTLSPortPolicy, which also sets a
	// fallback port that is dialled when the first dial fails.
	FallbackPort bool `json:"fallbackPort,omitempty"`
	// DefaultDialer: the Client gets no WithDialContextFunc; it uses go-mail's own net.Dialer /
	// tls.Dialer, whose sockets are the simulated network (builds with the dial seam only).
	DefaultDialer bool `json:"defaultDialer,omitempty"`
	// SSLPort: with TLSPolicy "implicit": WithSSLPort(true) instead of WithSSL() — port 465 with
	// the fallback port 25.
	SSLPort bool `json:"sslPort,omitempty"`
}

func (c ClientCfg) host() string {
	if c.Host == "" {
		return "mx.sim.example"
	}
	return c.Host
}

func (c ClientCfg) timeout() time.Duration {
	if c.TimeoutMs <= 0 {
		return 15 * time.Second
	}
	return time.Duration(c.TimeoutMs) * time.Millisecond
}

// BuildClient creates the real mail.Client for a configuration.
func BuildClient(c ClientCfg, dial mail.DialContextFunc, logger mlog.Logger) (*mail.Client, error) {
	opts := []mail.Option{mail.WithDialContextFunc(dial), mail.WithPort(25), mail.WithTimeout(c.timeout())}
	if c.DefaultDialer {
		if !setDefaultDial(dial) {
			return nil, fmt.Errorf("scenario uses go-mail's default dialer, but this binary has no dial seam")
		}
		opts = opts[1:]
	}
	var after func(*mail.Client)
	if c.PolicyVia != "" {
		var target, weaker mail.TLSPolicy
		switch c.TLSPolicy {
		case "", "mandatory":
			target, weaker = mail.TLSMandatory, mail.NoTLS
		case "opportunistic":
			target, weaker = mail.TLSOpportunistic, mail.NoTLS
		case "none":
			target, weaker = mail.NoTLS, mail.TLSOpportunistic
		default:
			return nil, fmt.Errorf("PolicyVia with TLS policy %q", c.TLSPolicy)
		}
		switch c.PolicyVia {
		case "setter":
			opts = append(opts, mail.WithTLSPolicy(weaker))
			after = func(cl *mail.Client) { cl.SetTLSPolicy(target) }
		case "port-setter":
			opts = append(opts, mail.WithPort(2525), mail.WithTLSPolicy(weaker))
			after = func(cl *mail.Client) { cl.SetTLSPortPolicy(target) }
		case "port-option":
			opts = append(opts, mail.WithPort(2525), mail.WithTLSPortPolicy(target))
		case "twice":
			opts = append(opts, mail.WithTLSPortPolicy(weaker), mail.WithTLSPortPolicy(target))
		case "ssl-toggle":
			// the caller tried implicit TLS on this Client and went back: the STARTTLS policy
			// it was constructed with is still the one that counts
			opts = append(opts, mail.WithTLSPolicy(target))
			after = func(cl *mail.Client) { cl.SetSSL(true); cl.SetSSL(false) }
		default:
			return nil, fmt.Errorf("unknown PolicyVia %q", c.PolicyVia)
		}
	}
	switch {
	case c.PolicyVia != "":
	case c.TLSPolicy == "" || c.TLSPolicy == "mandatory":
		if c.FallbackPort {
			opts = append(opts, mail.WithTLSPortPolicy(mail.TLSMandatory))
		} else {
			opts = append(opts, mail.WithTLSPolicy(mail.TLSMandatory))
		}
	case c.TLSPolicy == "opportunistic":
		if c.FallbackPort {
			opts = append(opts, mail.WithTLSPortPolicy(mail.TLSOpportunistic))
		} else {
			opts = append(opts, mail.WithTLSPolicy(mail.TLSOpportunistic))
		}
	case c.TLSPolicy == "none":
		opts = append(opts, mail.WithTLSPolicy(mail.NoTLS))
	case c.TLSPolicy == "implicit" && c.SSLPort:
		opts = append(opts, mail.WithSSLPort(true))
	case c.TLSPolicy == "implicit":
		opts = append(opts, mail.WithSSL())
	default:
		return nil, fmt.Errorf("unknown TLS policy %q", c.TLSPolicy)
	}
	switch c.AuthType {
	case "":
	case "CUSTOM-PLAIN":
		opts = append(opts, mail.WithSMTPAuthCustom(smtp.PlainAuth("", c.User, c.Pass, c.host(), false)))
	case "CUSTOM-LOGIN":
		opts = append(opts, mail.WithSMTPAuthCustom(smtp.LoginAuth(c.User, c.Pass, c.host(), false)))
	case "CUSTOM-CRAM-MD5":
		opts = append(opts, mail.WithSMTPAuthCustom(smtp.CRAMMD5Auth(c.User, c.Pass)))
	case "CUSTOM-STEPLOGIN":
		opts = append(opts, mail.WithSMTPAuthCustom(&stepLogin{user: c.User, pass: c.Pass}))
	case "CUSTOM-SCRAM-SHA-1":
		opts = append(opts, mail.WithSMTPAuthCustom(smtp.ScramSHA1Auth(c.User, c.Pass)))
	case "CUSTOM-SCRAM-SHA-256":
		opts = append(opts, mail.WithSMTPAuthCustom(smtp.ScramSHA256Auth(c.User, c.Pass)))
	case "CUSTOMNOENC-THEN-PLAIN", "CUSTOMNOENC-THEN-LOGIN":
		// the caller first configured a custom mechanism that permits clear text and then an
		// ordinary auth type: the later option is the one in force
		t := mail.SMTPAuthPlain
		var a smtp.Auth = smtp.PlainAuth("", c.User, c.Pass, c.host(), true)
		if strings.HasSuffix(c.AuthType, "LOGIN") {
			t, a = mail.SMTPAuthLogin, smtp.LoginAuth(c.User, c.Pass, c.host(), true)
		}
		opts = append(opts, mail.WithSMTPAuthCustom(a), mail.WithSMTPAuth(t), mail.WithUsername(c.User), mail.WithPassword(c.Pass))
	case "NOENC-THEN-PLAIN", "NOENC-THEN-LOGIN":
		// the Client once had a NOENC auth type and was then switched to the ordinary one
		opts = append(opts, mail.WithSMTPAuth(mail.SMTPAuthPlainNoEnc), mail.WithUsername(c.User), mail.WithPassword(c.Pass))
		t := mail.SMTPAuthPlain
		if strings.HasSuffix(c.AuthType, "LOGIN") {
			t = mail.SMTPAuthLogin
		}
		prev := after
		after = func(cl *mail.Client) {
			if prev != nil {
				prev(cl)
			}
			cl.SetSMTPAuth(t)
		}
	default:
		opts = append(opts, mail.WithSMTPAuth(mail.SMTPAuthType(c.AuthType)), mail.WithUsername(c.User), mail.WithPassword(c.Pass))
	}
	if c.HELO != "" {
		opts = append(opts, mail.WithHELO(c.HELO))
	}
	if c.SessionCache {
		// the caller's tls.Config keeps sessions: a second connection resumes the first one's
		opts = append(opts, mail.WithTLSConfig(&tls.Config{ServerName: c.host(), MinVersion: tls.VersionTLS12, ClientSessionCache: tls.NewLRUClientSessionCache(8)}))
	}
	if c.TLSConfigNoName {
		opts = append(opts, mail.WithTLSConfig(&tls.Config{MinVersion: tls.VersionTLS12}))
	}
	if c.DSN {
		opts = append(opts, mail.WithDSN())
	}
	if c.DSNRet != "" {
		opts = append(opts, mail.WithDSNMailReturnType(mail.DSNMailReturnOption(c.DSNRet)))
	}
	if len(c.DSNNotify) > 0 {
		var ns []mail.DSNRcptNotifyOption
		for _, n := range c.DSNNotify {
			ns = append(ns, mail.DSNRcptNotifyOption(n))
		}
		opts = append(opts, mail.WithDSNRcptNotifyType(ns...))
	}
	if c.NoNoop {
		opts = append(opts, mail.WithoutNoop())
	}
	if c.Debug {
		opts = append(opts, mail.WithDebugLog())
	}
	if logger != nil {
		opts = append(opts, mail.WithLogger(logger))
	}
	if c.LogAuthData {
		opts = append(opts, mail.WithLogAuthData())
	}
	cl, err := mail.NewClient(c.host(), opts...)
	if err == nil && after != nil {
		after(cl)
	}
	if err == nil && c.Sibling != "" {
		_, _ = mail.NewClient(c.Sibling, mail.WithDialContextFunc(dial), mail.WithTLSPolicy(mail.TLSMandatory))
	}
	return cl, err
}

// ---------- messages ----------

// ContentSpec is a piece of content together with the behaviour of the producer emitting it.
type ContentSpec struct {
	Data   []byte `json:"data"`
	Chunks []int  `json:"chunks,omitempty"` // sizes of successive Write calls (cycled); empty: one Write
	// FailAt >= 0: the producer returns an error after emitting FailAt bytes (0: before the first
	// byte; >= len(Data): after the last byte). -1 / absent with Fail=false: healthy.
	Fail   bool `json:"fail,omitempty"`
	FailAt int  `json:"failAt,omitempty"`
	// FailOnCall: which invocation of the producer fails (1-based); 0 = every invocation.
	FailOnCall int `json:"failOnCall,omitempty"`
	// ErrKind selects the identity of the error the producer fails with: "" (a plain sentinel) |
	// eof | wrapped-eof | unexpected-eof | short-write | closed | canceled | open ("open": the
	// source cannot be opened any more when the message is rendered although it could when it
	// was attached — sources "fs" and "file" only; FailAt is irrelevant) | seek (source
	// "readseeker" only: every Read works, Seek fails) | isdir (source "file" only: the path
	// opens, reading fails) | close (source "fs" only: every Read works, Close reports an error)
	ErrKind string `json:"errKind,omitempty"`
}

// ErrKinds are the producer error identities the workloads draw from.
var ErrKinds = []string{"", "eof", "wrapped-eof", "unexpected-eof", "short-write", "closed", "canceled", "empty-text", "text-4", "text-55", "deadline", "net-op"}

func (c ContentSpec) failErr() error {
	switch c.ErrKind {
	case "eof":
		return io.EOF
	case "wrapped-eof":
		return fmt.Errorf("reading the source: %w", io.EOF)
	case "unexpected-eof":
		return io.ErrUnexpectedEOF
	case "short-write":
		return io.ErrShortWrite
	case "closed":
		return fs.ErrClosed
	case "empty-text":
		// an error whose text is empty, or so short that it cannot be a reply line: whoever
		// looks for a reply code in it must not fall over
		return errors.New("")
	case "text-4":
		return errors.New("4")
	case "text-55":
		return errors.New("55")
	case "canceled":
		return fmt.Errorf("producer: %w", context.Canceled)
	case "deadline":
		// errors of a producer that itself works over a network look like transport errors
		// (they implement net.Error) although the SMTP connection is healthy
		return context.DeadlineExceeded
	case "net-op":
		return &net.OpError{Op: "read", Net: "tcp", Err: os.ErrDeadlineExceeded}
	}
	return ErrInjected
}

// PartSpec is a body part.
type PartSpec struct {
	Type    string      `json:"type"` // text/plain | text/html
	Enc     string      `json:"enc,omitempty"`
	Charset string      `json:"charset,omitempty"`
	Desc    string      `json:"desc,omitempty"`
	Kind    string      `json:"kind,omitempty"` // string | tmpl (text/template for text/plain, html/template for text/html) | writer (default writer)
	Content ContentSpec `json:"content"`
}

// FileSpec is an attachment or embed.
type FileSpec struct {
	Name    string      `json:"name"`
	Enc     string      `json:"enc,omitempty"` // "" (default base64) | base64 | 8bit | 7bit
	Desc    string      `json:"desc,omitempty"`
	CType   string      `json:"ctype,omitempty"`
	Source  string      `json:"source,omitempty"` // writer (default) | reader | readseeker | fs | file | tmpl | htmpl
	Content ContentSpec `json:"content"`
}

// MsgSpec is one message.
type MsgSpec struct {
	Token    string      `json:"token"`
	From     string      `json:"from,omitempty"`
	EnvFrom  string      `json:"envFrom,omitempty"`
	To       []string    `json:"to,omitempty"`
	Cc       []string    `json:"cc,omitempty"`
	Bcc      []string    `json:"bcc,omitempty"`
	ReplyTo  string      `json:"replyTo,omitempty"`
	Subject  string      `json:"subject,omitempty"`
	Enc      string      `json:"enc,omitempty"` // quoted-printable (default) | base64 | 8bit | 7bit
	Charset  string      `json:"charset,omitempty"`
	Parts    []PartSpec  `json:"parts,omitempty"`
	Embeds   []FileSpec  `json:"embeds,omitempty"`
	Attach   []FileSpec  `json:"attach,omitempty"`
	SMIME    string      `json:"smime,omitempty"` // "" | rsa | ecdsa
	Headers  [][2]string `json:"headers,omitempty"`
	Preform  [][2]string `json:"preform,omitempty"` // preformatted generic headers
	Boundary string      `json:"boundary,omitempty"`
	PGP      string      `json:"pgp,omitempty"`   // "" | encrypt | signature (WithPGPType: the caller supplies PGP/MIME parts)
	NoMsg    bool        `json:"noMsg,omitempty"` // a nil *Msg in the batch
	// Middlewares: the chain of message middlewares, by type: "reset" (sets the Subject to the
	// spec's subject), "tag" (appends " [tagged]" to the Subject), "xhdr" (sets X-Middleware).
	// The chains used are idempotent as a whole, each middleware alone need not be.
	Middlewares []string `json:"middlewares,omitempty"`
}

// simMW is a message middleware of the workloads.
type simMW struct {
	typ, subject string
}

func (w simMW) Type() mail.MiddlewareType { return mail.MiddlewareType(w.typ) }

func (w simMW) Handle(m *mail.Msg) *mail.Msg {
	switch w.typ {
	case "reset":
		m.Subject(w.subject)
	case "tag":
		cur := m.GetGenHeader(mail.HeaderSubject)
		s := ""
		if len(cur) > 0 {
			s = cur[0]
		}
		m.SetGenHeader(mail.HeaderSubject, s+" [tagged]")
	case "xhdr":
		m.SetGenHeader("X-Middleware", "seen")
	}
	return m
}

func encOf(s string) mail.Encoding {
	switch s {
	case "base64", "b64":
		return mail.EncodingB64
	case "8bit":
		return mail.NoEncoding
	case "7bit":
		return mail.EncodingUSASCII
	case "", "qp", "quoted-printable":
		return mail.EncodingQP
	}
	return mail.Encoding(s)
}

// MidContentHook, when set, is called once by the first producer that has handed half of its
// content to the writer (a caller whose context ends while a message is being written).
var MidContentHook func()

// ErrInjected is the error every failing producer returns.
var ErrInjected = errors.New("injected producer failure")

// Producer is an instrumented content producer.
type Producer struct {
	Spec  ContentSpec
	Calls int
	// Fired counts invocations that returned the injected error.
	Fired int
	// Emitted is the number of bytes handed to the writer in the last invocation.
	Emitted int
	// DownstreamErr counts invocations that stopped because the writer failed.
	DownstreamErr int
	// Vanished: the source (a file) was removed after attaching; every render fails on it.
	Vanished bool
}

func (p *Producer) failing() bool {
	return p.Spec.Fail && (p.Spec.FailOnCall == 0 || p.Spec.FailOnCall == p.Calls)
}

// WriteFunc has the signature go-mail expects from body and file writers.
func (p *Producer) WriteFunc(w io.Writer) (int64, error) {
	p.Calls++
	p.Emitted = 0
	data := p.Spec.Data
	limit := len(data)
	fail := p.failing()
	if fail && p.Spec.FailAt < limit {
		limit = p.Spec.FailAt
	}
	ci := 0
	for p.Emitted < limit {
		n := limit - p.Emitted
		if len(p.Spec.Chunks) > 0 {
			c := p.Spec.Chunks[ci%len(p.Spec.Chunks)]
			ci++
			if c < 1 {
				c = 1
			}
			if c < n {
				n = c
			}
		}
		m, err := w.Write(data[p.Emitted : p.Emitted+n])
		p.Emitted += m
		if err != nil {
			p.DownstreamErr++
			return int64(p.Emitted), err
		}
		if m < n {
			p.DownstreamErr++
			return int64(p.Emitted), io.ErrShortWrite
		}
		if h := MidContentHook; h != nil && p.Emitted*2 >= limit {
			MidContentHook = nil
			h()
		}
	}
	if fail {
		p.Fired++
		return int64(p.Emitted), p.Spec.failErr()
	}
	return int64(p.Emitted), nil
}

// faultReader is an io.Reader/io.ReadSeeker over the producer's content with the same failure
// behaviour; Seek rewinds.
type faultReader struct {
	p   *Producer
	pos int
	ci  int
	// inPass: a pass (one invocation of the producer) runs from the first Read after creation, an
	// error or EOF up to the next error or EOF — wherever the reader happens to be positioned,
	// so that a consumer that forgets to rewind is not mistaken for one that never read
	inPass bool
}

func (r *faultReader) Read(b []byte) (int, error) {
	p := r.p
	if !r.inPass {
		r.inPass = true
		p.Calls++
		p.Emitted = 0
	}
	data := p.Spec.Data
	limit := len(data)
	fail := p.failing() && p.Spec.ErrKind != "seek" && p.Spec.ErrKind != "close" // reads are fine there
	if fail && p.Spec.FailAt < limit {
		limit = p.Spec.FailAt
	}
	if r.pos >= limit {
		r.inPass = false
		if fail {
			p.Fired++
			if e := p.Spec.failErr(); e != io.EOF {
				// a Reader that "fails" with io.EOF just ends; that is a short file, not an error
				return 0, e
			}
			return 0, io.ErrUnexpectedEOF
		}
		return 0, io.EOF
	}
	n := limit - r.pos
	if len(p.Spec.Chunks) > 0 {
		c := p.Spec.Chunks[r.ci%len(p.Spec.Chunks)]
		r.ci++
		if c < 1 {
			c = 1
		}
		if c < n {
			n = c
		}
	}
	if n > len(b) {
		n = len(b)
	}
	copy(b, data[r.pos:r.pos+n])
	r.pos += n
	p.Emitted = r.pos
	return n, nil
}

func (r *faultReader) Seek(off int64, whence int) (int64, error) {
	if p := r.p; p.Spec.Fail && p.Spec.ErrKind == "seek" && (p.Spec.FailOnCall == 0 || p.Spec.FailOnCall == p.Calls) {
		// a source that can be read but not rewound (a pipe behind an *os.File, a forward-only
		// stream): the producer has failed, if only after its last byte
		p.Fired++
		return 0, &fs.PathError{Op: "seek", Path: "source", Err: errors.New("illegal seek")}
	}
	switch whence {
	case io.SeekStart:
		r.pos = int(off)
	case io.SeekCurrent:
		r.pos += int(off)
	case io.SeekEnd:
		r.pos = len(r.p.Spec.Data) + int(off)
	}
	if r.pos < 0 {
		r.pos = 0
	}
	r.ci = 0
	return int64(r.pos), nil
}

// faultFS is an fs.FS with one file whose reads follow the producer's behaviour.
type faultFS struct {
	name  string
	p     *Producer
	opens *int
}

func (f faultFS) Open(name string) (fs.File, error) {
	if name != f.name {
		return nil, fs.ErrNotExist
	}
	*f.opens++
	if p := f.p; *f.opens > 1 && p.Spec.Fail && p.Spec.ErrKind == "open" && (p.Spec.FailOnCall == 0 || p.Spec.FailOnCall == p.Calls+1) {
		// the first Open is the one of AttachFromIOFS/EmbedFromIOFS; every later one is a render
		p.Calls++
		p.Fired++
		return nil, &fs.PathError{Op: "open", Path: name, Err: fs.ErrNotExist}
	}
	return &faultFile{faultReader: faultReader{p: f.p}, name: name}, nil
}

type faultFile struct {
	faultReader
	name string
}

func (f *faultFile) Stat() (fs.FileInfo, error) {
	m := fstest.MapFS{f.name: &fstest.MapFile{Data: f.p.Spec.Data}}
	return m.Stat(f.name)
}
func (f *faultFile) Close() error {
	if p := f.p; p.Spec.Fail && p.Spec.ErrKind == "close" && (p.Spec.FailOnCall == 0 || p.Spec.FailOnCall == p.Calls) {
		// everything could be read, closing the source reports an error (a network file system
		// telling about a failed read-ahead, for instance): the producer has failed
		p.Fired++
		return &fs.PathError{Op: "close", Path: f.name, Err: errors.New("input/output error")}
	}
	return nil
}

// Built is a constructed message with handles on its producers.
type Built struct {
	Spec      MsgSpec
	Msg       *mail.Msg
	Producers []*Producer // parts first, then embeds, then attachments
	BuildErr  error
	TmpFiles  []string // files created for path-based sources
}

// Cleanup removes the files created for path-based sources.
func (b *Built) Cleanup() {
	for _, f := range b.TmpFiles {
		_ = os.Remove(f)
	}
}

func sanitizeName(n string) string {
	var sb strings.Builder
	for _, c := range n {
		if c == '/' || c == 0 || c == '\\' {
			sb.WriteByte('_')
		} else {
			sb.WriteRune(c)
		}
	}
	r := sb.String()
	if len(r) > 80 {
		r = r[:80]
	}
	if r == "" {
		r = "x"
	}
	return r
}

// AnyFired reports whether any producer returned its injected error since the counters were reset.
func (b *Built) AnyFired() bool {
	for _, p := range b.Producers {
		if p.Fired > 0 {
			return true
		}
	}
	return false
}

// ResetCounters clears the per-render counters (not the invocation count).
func (b *Built) ResetCounters() {
	for _, p := range b.Producers {
		p.Fired, p.DownstreamErr = 0, 0
		if p.Vanished {
			p.Fired = 1
		}
	}
}

// Healthy returns a copy of the spec with all producer faults removed.
func (s MsgSpec) Healthy() MsgSpec {
	c := s
	c.Parts = append([]PartSpec(nil), s.Parts...)
	c.Embeds = append([]FileSpec(nil), s.Embeds...)
	c.Attach = append([]FileSpec(nil), s.Attach...)
	for i := range c.Parts {
		c.Parts[i].Content.Fail = false
	}
	for i := range c.Embeds {
		c.Embeds[i].Content.Fail = false
	}
	for i := range c.Attach {
		c.Attach[i].Content.Fail = false
	}
	return c
}

// FixedDate is the Date every generated message carries unless a property wants the default.
var FixedDate = time.Date(2000, 1, 1, 12, 0, 0, 0, time.UTC)

// BuildOpts tunes message construction.
type BuildOpts struct {
	KeepDate  bool // do not set a fixed Date / Message-ID (C11 wants the generated ones)
	SMIMEKeys *SMIMEKeys
}

// serialFuncs gives a template a function whose result differs from one execution to the next
// (a print-run counter; a clock or a random id behaves alike): what a template source contributes
// is fixed when it is attached, however often the message is rendered.
func serialFuncs() map[string]any {
	n := 0
	return map[string]any{"serial": func() int { n++; return n }}
}

// BuildMsg constructs the real *mail.Msg for a spec.
func BuildMsg(s MsgSpec, o BuildOpts) *Built {
	b := &Built{Spec: s}
	if s.NoMsg {
		return b
	}
	var mopts []mail.MsgOption
	if s.Enc != "" {
		mopts = append(mopts, mail.WithEncoding(encOf(s.Enc)))
	}
	if s.Charset != "" {
		mopts = append(mopts, mail.WithCharset(mail.Charset(s.Charset)))
	}
	if s.Boundary != "" {
		mopts = append(mopts, mail.WithBoundary(s.Boundary))
	}
	switch s.PGP {
	case "encrypt":
		mopts = append(mopts, mail.WithPGPType(mail.PGPEncrypt))
	case "signature":
		mopts = append(mopts, mail.WithPGPType(mail.PGPSignature))
	}
	for _, t := range s.Middlewares {
		mopts = append(mopts, mail.WithMiddleware(simMW{typ: t, subject: s.Subject}))
	}
	m := mail.NewMsg(mopts...)
	b.Msg = m
	fail := func(err error) {
		if err != nil && b.BuildErr == nil {
			b.BuildErr = err
		}
	}
	if s.From != "" {
		fail(m.From(s.From))
	}
	if s.EnvFrom != "" {
		fail(m.EnvelopeFrom(s.EnvFrom))
	}
	if len(s.To) > 0 {
		fail(m.To(s.To...))
	}
	if len(s.Cc) > 0 {
		fail(m.Cc(s.Cc...))
	}
	if len(s.Bcc) > 0 {
		fail(m.Bcc(s.Bcc...))
	}
	if s.ReplyTo != "" {
		fail(m.ReplyTo(s.ReplyTo))
	}
	if s.Subject != "" {
		m.Subject(s.Subject)
	}
	if !o.KeepDate {
		m.SetDateWithValue(FixedDate)
		m.SetMessageIDWithValue(s.Token + "@sim.example")
	}
	for _, h := range s.Headers {
		// a value containing the unit separator U+001F is a list of values for one header field
		m.SetGenHeader(mail.Header(h[0]), strings.Split(h[1], "\x1f")...)
	}
	for _, h := range s.Preform {
		m.SetGenHeaderPreformatted(mail.Header(h[0]), h[1])
	}
	for i, p := range s.Parts {
		pr := &Producer{Spec: p.Content}
		b.Producers = append(b.Producers, pr)
		var popts []mail.PartOption
		if p.Enc != "" {
			popts = append(popts, mail.WithPartEncoding(encOf(p.Enc)))
		}
		if p.Charset != "" {
			popts = append(popts, mail.WithPartCharset(mail.Charset(p.Charset)))
		}
		if p.Desc != "" {
			popts = append(popts, mail.WithPartContentDescription(p.Desc))
		}
		ct := mail.ContentType(p.Type)
		switch {
		case p.Kind == "tmpl" && p.Type == "text/html":
			// html/template escapes the data it is given; what the part carries is whatever the
			// template produced at the time of the call, in every render
			tpl, terr := ht.New("b").Funcs(serialFuncs()).Parse("<p>{{.}}</p>\r\n<p>print run {{serial}}</p>\r\n")
			fail(terr)
			if i == 0 {
				fail(m.SetBodyHTMLTemplate(tpl, string(p.Content.Data), popts...))
			} else {
				fail(m.AddAlternativeHTMLTemplate(tpl, string(p.Content.Data), popts...))
			}
		case p.Kind == "tmpl":
			tpl, terr := tt.New("b").Funcs(serialFuncs()).Parse("{{.}}\r\nprint run {{serial}}\r\n")
			fail(terr)
			if i == 0 {
				fail(m.SetBodyTextTemplate(tpl, string(p.Content.Data), popts...))
			} else {
				fail(m.AddAlternativeTextTemplate(tpl, string(p.Content.Data), popts...))
			}
		case i == 0 && p.Kind == "string":
			m.SetBodyString(ct, string(p.Content.Data), popts...)
		case i == 0:
			m.SetBodyWriter(ct, pr.WriteFunc, popts...)
		case p.Kind == "string":
			m.AddAlternativeString(ct, string(p.Content.Data), popts...)
		default:
			m.AddAlternativeWriter(ct, pr.WriteFunc, popts...)
		}
	}
	addFile := func(f FileSpec, embed bool) {
		pr := &Producer{Spec: f.Content}
		b.Producers = append(b.Producers, pr)
		var fopts []mail.FileOption
		if f.Enc != "" {
			fopts = append(fopts, mail.WithFileEncoding(encOf(f.Enc)))
		}
		if f.Desc != "" {
			fopts = append(fopts, mail.WithFileDescription(f.Desc))
		}
		if f.CType != "" {
			fopts = append(fopts, mail.WithFileContentType(mail.ContentType(f.CType)))
		}
		switch f.Source {
		case "reader":
			// AttachReader reads everything at attach time; a failing reader fails the build, so
			// the reader handed over is healthy and the failure behaviour cannot apply.
			r := bytes.NewReader(f.Content.Data)
			if len(f.Content.Data)%2 == 1 {
				// the caller has already consumed a record header from the (seekable) reader:
				// the attachment is what follows the current position, in every render
				hdr := []byte("record header of " + f.Name + "\n")
				r = bytes.NewReader(append(hdr, f.Content.Data...))
				_, _ = io.CopyN(io.Discard, r, int64(len(hdr)))
			}
			if embed {
				fail(m.EmbedReader(f.Name, r, fopts...))
			} else {
				fail(m.AttachReader(f.Name, r, fopts...))
			}
		case "readseeker":
			r := &faultReader{p: pr}
			if n := len(f.Content.Data); n%3 == 1 && n > 8 && !f.Content.Fail {
				// the caller has read a few bytes of the source (a magic number, say) before
				// handing it over; whatever the attachment is taken to be — the rest or the
				// whole — it is the same in every render
				r.pos = 5
			}
			if embed {
				m.EmbedReadSeeker(f.Name, r, fopts...)
			} else {
				m.AttachReadSeeker(f.Name, r, fopts...)
			}
		case "file":
			// a real file in the per-process scratch directory (path-based source)
			dir := filepath.Join(ScratchDir, "files-"+s.Token)
			_ = os.MkdirAll(dir, 0o755)
			path := filepath.Join(dir, fmt.Sprintf("f%d-%s", len(b.Producers), sanitizeName(f.Name)))
			_ = os.RemoveAll(path) // whatever an earlier scenario left there
			fail(os.WriteFile(path, f.Content.Data, 0o644))
			b.TmpFiles = append(b.TmpFiles, path)
			if embed {
				m.EmbedFile(path, append(fopts, mail.WithFileName(f.Name))...)
			} else {
				m.AttachFile(path, append(fopts, mail.WithFileName(f.Name))...)
			}
			if f.Content.Fail && f.Content.ErrKind == "isdir" {
				// the path still opens, but every read fails: a directory sits there now
				_ = os.Remove(path)
				_ = os.Mkdir(path, 0o755)
				b.TmpFiles = append(b.TmpFiles, path)
				pr.Fired, pr.Vanished = 1, true
			}
			if f.Content.Fail && f.Content.ErrKind == "open" {
				// the file disappears between attaching and rendering: every render meets it
				_ = os.Remove(path)
				pr.Fired, pr.Vanished = 1, true
			}
		case "tmpl":
			tpl, terr := tt.New("t").Funcs(serialFuncs()).Parse("{{.}}\r\nprint run {{serial}}\r\n")
			fail(terr)
			if embed {
				fail(m.EmbedTextTemplate(f.Name, tpl, string(f.Content.Data), fopts...))
			} else {
				fail(m.AttachTextTemplate(f.Name, tpl, string(f.Content.Data), fopts...))
			}
		case "htmpl":
			tpl, terr := ht.New("t").Funcs(serialFuncs()).Parse("<pre>{{.}}</pre>\r\nprint run {{serial}}\r\n")
			fail(terr)
			if embed {
				fail(m.EmbedHTMLTemplate(f.Name, tpl, string(f.Content.Data), fopts...))
			} else {
				fail(m.AttachHTMLTemplate(f.Name, tpl, string(f.Content.Data), fopts...))
			}
		case "fs":
			fsys := faultFS{name: f.Name, p: pr, opens: new(int)}
			if embed {
				fail(m.EmbedFromIOFS(f.Name, fsys, fopts...))
			} else {
				fail(m.AttachFromIOFS(f.Name, fsys, fopts...))
			}
		default:
			file := &mail.File{Name: f.Name, Header: make(map[string][]string), Writer: pr.WriteFunc}
			for _, fo := range fopts {
				fo(file)
			}
			if embed {
				m.SetEmbeds(append(m.GetEmbeds(), file))
			} else {
				m.SetAttachments(append(m.GetAttachments(), file))
			}
		}
	}
	for _, f := range s.Embeds {
		addFile(f, true)
	}
	for _, f := range s.Attach {
		addFile(f, false)
	}
	if s.SMIME != "" && o.SMIMEKeys != nil {
		fail(o.SMIMEKeys.Sign(m, s.SMIME))
	}
	return b
}

// Render renders with healthy producers into memory.
func Render(m *mail.Msg) ([]byte, error) {
	var buf bytes.Buffer
	_, err := m.WriteTo(&buf)
	return buf.Bytes(), err
}

// SimpleMsg is a small single-part message.
func SimpleMsg(token string, to ...string) MsgSpec {
	if len(to) == 0 {
		to = []string{"rcpt-" + token + "@dest.example"}
	}
	return MsgSpec{Token: token, From: "sender-" + token + "@origin.example", To: to, Subject: "subject " + token,
		Parts: []PartSpec{{Type: "text/plain", Kind: "string", Content: ContentSpec{Data: []byte("body of " + token + "\r\nsecond line\r\n")}}}}
}

func addrOf(s string) string {
	if i := strings.LastIndexByte(s, '<'); i >= 0 && strings.HasSuffix(s, ">") {
		return s[i+1 : len(s)-1]
	}
	return s
}

type mailMsg = mail.Msg

// stepLogin is a hand-written LOGIN mechanism of the kind callers plug in through
// WithSMTPAuthCustom: it answers by counting steps and does not look at the "more" flag, so it
// still hands out its next answer when the server has already given its verdict.
type stepLogin struct {
	user, pass string
	step       int
}

func (a *stepLogin) Start(*smtp.ServerInfo) (string, []byte, error) {
	a.step = 0
	return "LOGIN", nil, nil
}

func (a *stepLogin) Next([]byte, bool) ([]byte, error) {
	a.step++
	switch a.step {
	case 1:
		return []byte(a.user), nil
	case 2:
		return []byte(a.pass), nil
	}
	return nil, nil
}
