package props

import (
	"bytes"
	"context"
	"fmt"
	"net"
	"os"
	"regexp"
	"sort"
	"strings"
	"testing"
	"time"

	mail "github.com/wneessen/go-mail"

	"verif/sim/refsmtpd"
	"verif/sim/sim"
)

// C13 — Concurrent use of one Client is safe.
//
// System: the instrumented scratch copy of go-mail (every Lock/Unlock/RLock/RUnlock of packages
// mail and smtp goes through the kernel, DESIGN.md §3.4) built with -race; N ∈ {2,3,4,8,16,64}
// goroutines with distinct messages calling Send on one dialled connection and/or DialAndSend on
// the same Client; a reference server per connection. Schedule space: every decision "which
// enabled task runs next" at lock, unlock and connection operations, drawn by seeded policies
// (uniform random, PCT with 1..3 priority change points, starve-one). Oracle: whole transactions
// per connection, each message committed exactly once with its own envelope and content and
// between invocation and return of its call, every call returns nil and IsDelivered, no race
// report from the detector under the controlled schedule, no deadlock.

type C13Scenario struct {
	N      int        `json:"n"`
	Mode   string     `json:"mode"` // send | dialandsend | mixed
	Policy sim.Policy `json:"policy"`
	Sched  uint64     `json:"sched"`
	Rich   bool       `json:"rich,omitempty"` // multipart messages with files
	NoNoop bool       `json:"noNoop,omitempty"`
	// Auth: SMTP auth type of the Client ("" = none); every connection authenticates.
	Auth string `json:"auth,omitempty"`
	// Refuse lists senders (indices) whose first recipient the server refuses with 550: their call
	// must fail — and must not disturb anybody else's.
	Refuse []int `json:"refuse,omitempty"`
	// RefuseAll: for the senders in Refuse the server refuses every recipient, not just the first.
	RefuseAll bool `json:"refuseAll,omitempty"`
	// FailProducer lists senders whose body writer fails in the middle of the content: their call
	// must fail, nothing of their message may be committed, nobody else may notice.
	FailProducer []int `json:"failProducer,omitempty"`
	// BreakData lists senders (with a connection of their own) whose connection is reset right
	// after the server's 354: the first write of the content fails. Their call must fail and
	// return, nothing of their message is committed, nobody else notices.
	BreakData []int `json:"breakData,omitempty"`
	// RefuseData lists senders (with a connection of their own) whose DATA command the server
	// refuses (554) after accepting MAIL and RCPT: their call fails, their clean-up stays on
	// their own connection, nobody else notices.
	RefuseData []int `json:"refuseData,omitempty"`
	// Operator > 0: one more goroutine, which after that many scheduling points switches the
	// Client's debug logging off (a setter that takes the Client's lock for writing, as an
	// operator or a signal handler would call it while mail is being sent). It changes nothing
	// observable; the senders must not notice.
	//
	// NOT GENERATED. On the unchanged tree this dead-locks: sendSingleMsg holds the Client's
	// read lock for the whole transaction and takes it again at the end (ResetWithSMTPClient ->
	// checkConn); a writer that announces itself in between blocks the second RLock for ever
	// (sync.RWMutex is not reentrant). That is a defect of go-mail, but C13 quantifies over
	// goroutines calling Send and DialAndSend, none of which takes the write lock, so it is not a
	// violation of the property and must not raise an alarm. The field is kept so that the
	// scenario can be replayed by hand (DESIGN.md section 8.4, observations).
	Operator int `json:"operator,omitempty"`
	// RefuseEOD lists senders (any, also those on the shared connection) whose message the
	// server refuses after the content (554 to the end-of-data): their call fails, nothing of
	// theirs is committed, and the connection stays usable for everybody else.
	RefuseEOD []int `json:"refuseEOD,omitempty"`
	// Fallback: the Client has a fallback port (WithTLSPortPolicy(TLSOpportunistic): 587, then
	// 25) and the primary port cannot be reached: every dial goes through the fallback.
	Fallback bool `json:"fallback,omitempty"`
}

type c13 struct{}

func init() { register(&c13{}) }

func (*c13) ID() string                     { return "C13" }
func (*c13) Level() string                  { return "exploration" }
func (*c13) Decode(raw []byte) (any, error) { return decodeInto[C13Scenario](raw) }

func (p *c13) Gen(seed uint64, i int, tier string) (any, bool) {
	n := 12000
	if tier == "thorough" {
		n = 300000
	}
	if i >= n {
		return nil, false
	}
	r := sim.NewRand(sim.Derive(seed, 13, uint64(i)))
	sc := &C13Scenario{Sched: sim.Derive(seed, 13, uint64(i), 1)}
	sc.N = sim.Pick(r, []int{2, 2, 3, 3, 4, 4, 8, 16})
	if i%97 == 96 {
		sc.N = 64
	}
	sc.Mode = sim.Pick(r, []string{"send", "send", "send", "dialandsend", "mixed"})
	switch r.Intn(4) {
	case 0:
		sc.Policy = sim.Policy{Kind: "random"}
	case 1, 2:
		sc.Policy = sim.Policy{Kind: "pct", Depth: 1 + r.Intn(3), MaxSteps: 100 * sc.N}
	default:
		sc.Policy = sim.Policy{Kind: "starve", Victim: 1 + r.Intn(sc.N+1)}
	}
	sc.Rich = r.Chance(1, 4)
	sc.NoNoop = r.Chance(1, 5)
	if r.Chance(1, 3) {
		sc.Auth = sim.Pick(r, []string{"LOGIN-NOENC", "SCRAM-SHA-256", "CRAM-MD5", "PLAIN-NOENC", "AUTODISCOVER"})
	}
	if r.Chance(1, 3) {
		for k := 0; k < 1+r.Intn(2); k++ {
			sc.Refuse = append(sc.Refuse, r.Intn(sc.N))
		}
		sc.RefuseAll = r.Chance(1, 2)
	}
	if r.Chance(1, 4) {
		for k := 0; k < 1+r.Intn(2); k++ {
			sc.FailProducer = append(sc.FailProducer, r.Intn(sc.N))
		}
	}
	if r.Chance(1, 5) {
		for k := 0; k < 1+r.Intn(2); k++ {
			sc.BreakData = append(sc.BreakData, r.Intn(sc.N))
		}
	}
	if r.Chance(1, 5) {
		for k := 0; k < 1+r.Intn(2); k++ {
			sc.RefuseData = append(sc.RefuseData, r.Intn(sc.N))
		}
	}
	sc.Fallback = r.Chance(1, 6)
	// sc.Operator stays 0 in generated scenarios: see the field's comment
	if r.Chance(1, 5) {
		for k := 0; k < 1+r.Intn(2); k++ {
			sc.RefuseEOD = append(sc.RefuseEOD, r.Intn(sc.N))
		}
	}
	return sc, true
}

// c13Slot is written by exactly one sender task.
type c13Slot struct {
	mode      string
	started   bool
	returned  bool
	err       error
	panic     any
	stack     string
	startStep int
	endStep   int
	delivered bool
	hasErr    bool
}

// c13Net is a dial function whose shared state is a pre-sized array indexed by a counter that is
// only touched in //go:norace code (execution is serialised by the kernel).
var errRefused = fmt.Errorf("connection refused")

type c13Net struct {
	failPrimary bool
	k           *sim.Kernel
	srv         *refsmtpd.Server
	pipes       []*sim.Pipe
	n           int
}

//go:norace
func (e *c13Net) next() int {
	e.n++
	return e.n
}

//go:norace
func (e *c13Net) put(i int, p *sim.Pipe) { e.pipes[i-1] = p }

func (e *c13Net) Dial(ctx context.Context, network, addr string) (net.Conn, error) {
	if e.failPrimary && strings.HasSuffix(addr, ":587") {
		// the submission port cannot be reached (the refusal takes a moment to arrive)
		e.k.Yield(sim.PtOther)
		return nil, &net.OpError{Op: "dial", Net: network, Err: errRefused}
	}
	id := e.next()
	p := sim.NewPipe(e.k, id, sim.ConnFaults{SegMode: 1, MaxSeg: 200})
	e.put(id, p)
	e.k.GoDaemon(fmt.Sprintf("server-%d", id), func() { e.srv.Serve(p) })
	return p.Client, nil
}

var raceFuncRe = regexp.MustCompile(`(?m)^\s+(\S+)\(\)$`)

// raceLog returns what the race detector has written since the last call.
var raceLogOff int64

func raceLogDelta() string {
	path := ""
	for _, f := range strings.Fields(os.Getenv("GORACE")) {
		if strings.HasPrefix(f, "log_path=") {
			path = strings.TrimPrefix(f, "log_path=") + fmt.Sprintf(".%d", os.Getpid())
		}
	}
	if path == "" {
		return ""
	}
	b, err := os.ReadFile(path)
	if err != nil || int64(len(b)) <= raceLogOff {
		return ""
	}
	d := string(b[raceLogOff:])
	raceLogOff = int64(len(b))
	return d
}

// raceSites extracts, per report, the functions of the two conflicting accesses.
func raceSites(log string) []string {
	var out []string
	for _, rep := range strings.Split(log, "WARNING: DATA RACE") {
		if !strings.Contains(rep, " by goroutine ") {
			continue
		}
		var fns []string
		for _, sec := range regexp.MustCompile(`(?m)^(?:Previous )?(?:[Rr]ead|[Ww]rite|atomic [a-z]+) at .*$`).FindAllStringIndex(rep, -1) {
			rest := rep[sec[1]:]
			// first frame that belongs to go-mail, else the first frame at all
			frames := raceFuncRe.FindAllStringSubmatch(rest[:min(len(rest), 1500)], 12)
			pick := ""
			for _, f := range frames {
				if strings.Contains(f[1], "wneessen/go-mail") && !strings.Contains(f[1], "simhook") {
					pick = f[1]
					break
				}
			}
			if pick == "" && len(frames) > 0 {
				pick = frames[0][1]
			}
			pick = strings.TrimPrefix(pick, "github.com/wneessen/go-mail/")
			pick = strings.TrimPrefix(pick, "github.com/wneessen/go-mail.")
			fns = append(fns, pick)
			if len(fns) == 2 {
				break
			}
		}
		sort.Strings(fns)
		out = append(out, strings.Join(fns, "|"))
	}
	return out
}

func (p *c13) Exec(t *testing.T, scAny any) Outcome {
	sc := scAny.(*C13Scenario)
	var out Outcome
	if !sim.RaceEnabled {
		out.Infra = "C13 needs the -race build of the instrumented scratch copy"
		return out
	}
	raceLogDelta() // discard anything left over
	slots := make([]c13Slot, sc.N)
	built := make([]*Built, sc.N)
	var env *c13Net
	var dialErr error
	hooked := false
	// senders with a connection of their own
	private := func(i int) bool { return sc.Mode == "dialandsend" || (sc.Mode == "mixed" && i%2 == 1) }
	res := RunSim(t, sc.Sched, sc.Policy, 400000, 0, func(k *sim.Kernel) (func(), func()) {
		hooked = installLockHooks(k)
		scfg := refsmtpd.Config{Caps: []string{"8BITMIME", "ENHANCEDSTATUSCODES"}}
		ccfg := ClientCfg{TLSPolicy: "none", NoNoop: sc.NoNoop}
		if sc.Auth != "" {
			scfg.Caps = append(scfg.Caps, authCaps("PLAIN", "LOGIN", "CRAM-MD5", "SCRAM-SHA-1", "SCRAM-SHA-256"))
			scfg.Auth = refsmtpd.AuthCfg{User: "user-c13", Pass: "pass-c13-Qz", Salt: []byte("c13salt"), Iter: 2}
			ccfg.AuthType, ccfg.User, ccfg.Pass = sc.Auth, "user-c13", "pass-c13-Qz"
		}
		for _, i := range sc.Refuse {
			scfg.Rules = append(scfg.Rules, refsmtpd.Rule{Verb: "RCPT", LineContains: fmt.Sprintf("<a-g%d@", i), Action: refsmtpd.Action{Code: 550, Text: "no such user"}})
			if sc.RefuseAll {
				scfg.Rules = append(scfg.Rules, refsmtpd.Rule{Verb: "RCPT", LineContains: fmt.Sprintf("<b-g%d@", i), Action: refsmtpd.Action{Code: 550, Text: "no such user either"}})
			}
		}
		// a failing body writer costs its connection (the DATA section can only be aborted by
		// dropping it), so only senders with a connection of their own get one
		failing := map[int]bool{}
		for _, i := range sc.FailProducer {
			if private(i) {
				failing[i] = true
			}
		}
		for _, i := range sc.RefuseEOD {
			scfg.Rules = append(scfg.Rules, refsmtpd.Rule{Verb: "EOD", FromContains: fmt.Sprintf("sender-g%d@", i), Action: refsmtpd.Action{Code: 554, Text: "message refused by content filter"}})
		}
		for _, i := range sc.RefuseData {
			if private(i) {
				scfg.Rules = append(scfg.Rules, refsmtpd.Rule{Verb: "DATA", FromContains: fmt.Sprintf("sender-g%d@", i), Action: refsmtpd.Action{Code: 554, Text: "transaction failed"}})
			}
		}
		for _, i := range sc.BreakData {
			if private(i) {
				scfg.Rules = append(scfg.Rules, refsmtpd.Rule{Verb: "DATA", FromContains: fmt.Sprintf("sender-g%d@", i), Action: refsmtpd.Action{ResetNext: true}})
			}
		}
		env = &c13Net{k: k, srv: refsmtpd.New(k, scfg, TLSMat), pipes: make([]*sim.Pipe, sc.N+2), failPrimary: sc.Fallback}
		if sc.Fallback {
			ccfg.TLSPolicy, ccfg.FallbackPort = "opportunistic", true
		}
		return func() {
			c, err := BuildClient(ccfg, env.Dial, nil)
			if err != nil {
				dialErr = err
				return
			}
			for i := range built {
				tok := fmt.Sprintf("g%d", i)
				spec := SimpleMsg(tok, fmt.Sprintf("a-%s@dest.example", tok), fmt.Sprintf("b-%s@dest.example", tok))
				if sc.Rich {
					spec.Parts = append(spec.Parts, PartSpec{Type: "text/html", Kind: "string", Content: ContentSpec{Data: []byte("<p>" + tok + "</p>\r\n")}})
					spec.Attach = []FileSpec{{Name: tok + ".bin", Content: ContentSpec{Data: bytes.Repeat([]byte(tok+" attachment line\r\n"), 20), Chunks: []int{7}}}}
				}
				if failing[i] {
					// a body writer that gives up half way, on every invocation
					body := bytes.Repeat([]byte("line of the body of "+tok+" that is never completed\r\n"), 8)
					spec.Parts[0] = PartSpec{Type: "text/plain", Enc: sim.Pick(sim.NewRand(sc.Sched+uint64(i)), []string{"quoted-printable", "base64", "8bit"}),
						Content: ContentSpec{Data: body, Chunks: []int{11}, Fail: true, FailAt: len(body) / 2}}
				}
				built[i] = BuildMsg(spec, BuildOpts{})
				slots[i].mode = "send"
				if sc.Mode == "dialandsend" || (sc.Mode == "mixed" && i%2 == 1) {
					slots[i].mode = "dialandsend"
				}
			}
			needShared := sc.Mode != "dialandsend"
			if needShared {
				if dialErr = c.DialWithContext(context.Background()); dialErr != nil {
					return
				}
			}
			// the sender tasks are created after the dial, by this task: exactly the
			// happens-before edge a real caller's go statement gives
			tasks := make([]*sim.Task, sc.N)
			for i := 0; i < sc.N; i++ {
				i := i
				tasks[i] = k.Go(fmt.Sprintf("sender-%d", i), func() {
					s := &slots[i]
					s.started = true
					s.startStep = k.Steps
					defer func() {
						if r := recover(); r != nil {
							s.panic = r
						}
						s.endStep = k.Steps
						s.returned = !k.Aborting()
					}()
					m := built[i].Msg
					if s.mode == "send" {
						s.err = c.Send(m)
					} else {
						s.err = c.DialAndSend(m)
					}
					s.delivered = m.IsDelivered()
					s.hasErr = m.HasSendError()
				})
			}
			if sc.Operator > 0 {
				tasks = append(tasks, k.Go("operator", func() {
					for n := 0; n < sc.Operator; n++ {
						k.Yield(sim.PtOther)
					}
					c.SetDebugLog(false)
				}))
			}
			k.Join(tasks...)
			if needShared && !k.Aborting() {
				_ = c.Close()
			}
		}, func() { env.srv.H.Freeze() }
	})
	removeLockHooks()
	out.SimNs, out.Steps, out.Digest = res.VirtualNs, res.Steps, res.Digest
	if !hooked {
		out.Infra = "lock hooks are not compiled in (build without -tags simhook)"
		return out
	}
	if res.Externals > 0 {
		out.stat("probe.task-blocked-outside-kernel", res.Externals)
	}
	if res.BubbleErr != "" {
		if res.Externals > 0 && strings.Contains(res.BubbleErr, "deadlock") {
			out.violate("C13:deadlock:blocked-for-ever", "a sender blocked inside the library on something other than a lock or the connection and never came back (mode %s, %d goroutines): %s", sc.Mode, sc.N, res.BubbleErr)
			return out
		}
		out.Infra = "bubble: " + res.BubbleErr
		return out
	}
	if dialErr != nil {
		out.Infra = "setup dial failed: " + dialErr.Error()
		return out
	}
	site := sc.Mode
	// (iv) the race detector
	if log := raceLogDelta(); log != "" {
		if !strings.Contains(strings.ReplaceAll(log, "go-mail/simhook", ""), "wneessen/go-mail") {
			out.Infra = "race report that does not involve go-mail code (harness bug):\n" + clipStr(log, 3000)
			return out
		}
		for _, s := range raceSites(log) {
			out.violate("C13:data-race:"+s, "the race detector reported a data race under the controlled schedule (mode %s, %d goroutines, policy %s):\n%s", sc.Mode, sc.N, sc.Policy.Kind, clipStr(log, 3500))
		}
		out.stat("probe.race-reports", 1)
	}
	// (v) deadlock
	if res.Verdict == sim.Quiescent {
		out.violate("C13:deadlock:"+site, "no task can ever run again but %v have not finished (mode %s, %d goroutines)", res.Unfinished, sc.Mode, sc.N)
		return out
	}
	if res.Verdict != sim.AllDone {
		out.Infra = fmt.Sprintf("run ended with verdict %s after %d steps", res.Verdict, res.Steps)
		return out
	}
	for _, tp := range res.TaskPanics {
		out.violate("C13:panic", "%s", clipStr(tp, 2000))
	}
	h := env.srv.H
	// (i) whole transactions on every connection
	for _, e := range h.Events {
		if e.Kind == "obs" {
			tag := e.Obs
			if strings.HasPrefix(tag, "syntax:") {
				tag = "syntax"
			}
			out.violate("C13:interleaved:"+tag, "connection %d: the reference server observed %q in state %s on line %q — transactions of different messages interleaved (mode %s, %d goroutines)", e.Conn, e.Obs, e.State, e.Line, sc.Mode, sc.N)
		}
	}
	// (ii) exactly once, own envelope, own content, within the call
	commits := map[string][]refsmtpd.Commit{}
	for _, cm := range h.Commits {
		tok := strings.TrimPrefix(cm.From.Local, "sender-")
		commits[tok] = append(commits[tok], cm)
	}
	refused := map[int]bool{}
	for _, i := range sc.Refuse {
		refused[i] = true
	}
	for _, i := range sc.FailProducer {
		if !(sc.Mode == "dialandsend" || (sc.Mode == "mixed" && i%2 == 1)) {
			continue
		}
		if !refused[i] {
			out.stat("fault.fired.failing_body_writer", 1)
		}
		refused[i] = true // same expectation: the call fails and nothing is committed
	}
	for _, i := range sc.RefuseEOD {
		if i < sc.N && !refused[i] {
			out.stat("fault.fired.content_refused", 1)
			refused[i] = true
		}
	}
	for _, i := range sc.RefuseData {
		if !private(i) {
			continue
		}
		if !refused[i] {
			out.stat("fault.fired.data_refused", 1)
			refused[i] = true
		}
	}
	for _, i := range sc.BreakData {
		if !private(i) {
			continue
		}
		if !refused[i] {
			out.stat("fault.fired.connection_dropped_after_354", 1)
			refused[i] = true
		}
	}
	for i, b := range built {
		s := slots[i]
		tok := b.Spec.Token
		if refused[i] {
			// this sender's recipient is refused: its call fails, nothing of it is committed
			out.stat("fault.fired.refused_sender", 1)
			if s.panic != nil {
				out.violate("C13:panic", "sender %d panicked: %v", i, s.panic)
			} else if !s.returned {
				out.violate("C13:call-did-not-return:"+s.mode, "sender %d (%s, refused recipient) did not return", i, s.mode)
			} else if s.err == nil || s.delivered {
				out.violate("C13:refused-but-succeeded:"+s.mode, "the server refused a recipient of message %s, yet %s returned %v and IsDelivered()=%v", tok, s.mode, s.err, s.delivered)
			}
			if len(commits[tok]) > 0 {
				out.violate("C13:refused-but-committed", "message %s had a refused recipient and must have been abandoned, yet it was committed", tok)
			}
			continue
		}
		if s.panic != nil {
			out.violate("C13:panic", "sender %d panicked: %v", i, s.panic)
			continue
		}
		if !s.returned {
			out.violate("C13:call-did-not-return:"+s.mode, "sender %d (%s) did not return", i, s.mode)
			continue
		}
		// (iii)
		if s.err != nil {
			out.violate("C13:call-failed:"+s.mode, "sender %d: %s of message %s returned %v although the server accepts everything", i, s.mode, tok, s.err)
		}
		if !s.delivered || s.hasErr {
			out.violate("C13:not-delivered:"+s.mode, "sender %d: message %s IsDelivered()=%v HasSendError()=%v after %s returned %v", i, tok, s.delivered, s.hasErr, s.mode, s.err)
		}
		cs := commits[tok]
		switch {
		case len(cs) == 0:
			out.violate("C13:lost:"+s.mode, "message %s of sender %d was never committed by the server", tok, i)
			continue
		case len(cs) > 1:
			out.violate("C13:duplicated:"+s.mode, "message %s of sender %d was committed %d times", tok, i, len(cs))
		}
		cm := cs[0]
		ref, err := Render(b.Msg)
		if err != nil {
			out.Infra = "reference render failed: " + err.Error()
			return out
		}
		if !bytes.Equal(cm.Content, canonDot(ref)) {
			why := "differs"
			for j, o := range built {
				if j != i && bytes.Contains(cm.Content, []byte(o.Spec.Token)) {
					why = "mixture"
				}
			}
			out.violate("C13:content:"+why, "message %s was committed with content that is not its own rendering (%s): %d bytes vs %d; tail %q", tok, why, len(cm.Content), len(ref), tail(cm.Content, 100))
		}
		var got []string
		for _, rp := range cm.Rcpts {
			got = append(got, rp.Mailbox())
		}
		if want := fmt.Sprintf("a-%s@dest.example,b-%s@dest.example", tok, tok); strings.Join(got, ",") != want {
			out.violate("C13:envelope", "message %s was committed with recipients %v, want %s", tok, got, want)
		}
		if cm.Step < s.startStep || cm.Step > s.endStep {
			out.violate("C13:commit-outside-call", "message %s was committed at step %d, outside its call [%d,%d]", tok, cm.Step, s.startStep, s.endStep)
		}
	}
	if want := sc.N - len(refused); len(h.Commits) != want {
		out.violate("C13:commit-count", "%d messages to be delivered, %d commits", want, len(h.Commits))
	}
	out.Key = fmt.Sprintf("%x", res.SchedHash)
	out.Nontrivial = true
	out.stat("tasks", sc.N)
	out.stat("mode."+sc.Mode, 1)
	out.stat("policy."+sc.Policy.Kind, 1)
	return out
}

func (p *c13) Shrink(scAny any) []any {
	sc := scAny.(*C13Scenario)
	var out []any
	for _, n := range []int{2, 3, 4, 8} {
		if n < sc.N {
			c := *sc
			c.N = n
			c.Refuse, c.FailProducer = nil, nil
			for _, i := range sc.Refuse {
				if i < n {
					c.Refuse = append(c.Refuse, i)
				}
			}
			for _, i := range sc.FailProducer {
				if i < n {
					c.FailProducer = append(c.FailProducer, i)
				}
			}
			out = append(out, &c)
		}
	}
	if sc.Rich {
		c := *sc
		c.Rich = false
		out = append(out, &c)
	}
	if sc.Auth != "" {
		c := *sc
		c.Auth = ""
		out = append(out, &c)
	}
	if len(sc.Refuse) > 0 {
		c := *sc
		c.Refuse = nil
		out = append(out, &c)
	}
	if len(sc.FailProducer) > 0 {
		c := *sc
		c.FailProducer = nil
		out = append(out, &c)
	}
	if sc.Mode == "mixed" {
		for _, m := range []string{"send", "dialandsend"} {
			c := *sc
			c.Mode = m
			out = append(out, &c)
		}
	}
	if sc.Policy.Kind != "random" {
		c := *sc
		c.Policy = sim.Policy{Kind: "random"}
		out = append(out, &c)
	}
	return out
}

func (p *c13) Info() PropInfo {
	return PropInfo{
		Rule: "seeded schedules: N in {2,3,4,8,16} (every 97th run: 64) goroutines with distinct messages, optionally with SMTP AUTH on every connection (LOGIN, SCRAM-SHA-256, CRAM-MD5, PLAIN, auto-discovery) and optionally with one or two senders whose first or every recipient the server refuses, one or two whose body writer fails half way, one or two whose DATA command is refused, a sixth of the scenarios with a fallback port and an unreachable primary port, and one or two whose own connection is reset right after the server's 354 (their calls must fail, nothing of theirs may be committed, nobody else may notice), (single-part, or multipart with an attachment written in 7-byte chunks) on one Client in mode {all Send on one dialled connection, all DialAndSend, alternating}; the kernel decides at every lock, unlock, read-lock, read-unlock and connection read/write which enabled task runs next, by policy {uniform random, PCT with 1..3 priority change points, starve-one}; server-side read segmentation drawn per read; every run is non-trivial; distinct = distinct hashes of the sequence of (task, yield point) decisions actually taken",
		Assumptions: []string{"interleavings are explored at the instrumented yield points (lock operations of packages mail and smtp, simulated connection reads and writes); between two yield points a task runs alone, unsynchronised accesses there are the race detector's job (it sees every access under -race, and the kernel creates no happens-before edge between tasks)",
			"the seeded crypto/rand reader has a mutex of its own (a small masking source for races between calls that both draw randomness)",
			"latencies are a few nanoseconds of virtual time in this build (tasks park by polling), timeouts never fire"},
		Real:            []string{"go-mail Client.Send / DialAndSend / DialWithContext / Close, smtp.Client, Msg.WriteTo — from an instrumented scratch copy of /repo's working tree (61 lock calls rewritten, nothing else changed)", "Go race detector", "net/textproto"},
		Stubbed:         []string{"goroutine scheduling (serialising kernel on a synctest bubble)", "TCP (sim.Pipe)", "SMTP server (refsmtpd, one session task per connection)", "clock", "crypto/rand"},
		NotCovered:      []string{"TLS connections under concurrency", "interleavings inside crypto/tls or other dependencies"},
		Exhaustive:      func(string) bool { return false },
		HangIsViolation: true,
		QuickBudget:     100 * time.Second, ThoroughBudget: 25 * time.Minute,
	}
}

var _ = mail.NoTLS
