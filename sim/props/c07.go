package props

import (
	"bytes"
	"encoding/base64"
	"fmt"
	"strings"
	"testing"
	"time"

	"verif/sim/refsmtpd"
	"verif/sim/sim"
)

// C07 — TLS policy and credential confidentiality hold against any server.
//
// Enumerated (finite product): TLS policy {mandatory, opportunistic, none, implicit} × auth type
// (all 13 values plus custom PLAIN/LOGIN Auth values) × host kind {localhost names, other} ×
// server behaviour {STARTTLS advertised or not; reply 220 / 4yz / 5yz / garbage; handshake ok /
// certificate for another name / untrusted issuer / garbage bytes / stall; EHLO refused; several
// advertised AUTH lists}, on TLS 1.2 and 1.3, for DialAndSend of one message. Oracle: (i) the
// byte-exact tap of what the client wrote; (ii) the server's view inside TLS; (iii) the password
// in every encoding against the cleartext bytes; (iv) the mechanism discovery chose.

type C07Scenario struct {
	Client ClientCfg       `json:"client"`
	Server refsmtpd.Config `json:"server"`
	// Second, if set, is how the peer behaves on the second connection: after the first
	// DialAndSend a second one is made on the same Client.
	Second *refsmtpd.Config `json:"second,omitempty"`
	Label  string           `json:"label"`
	Sched  uint64           `json:"sched"`
	// PlainDial: implicit TLS is configured (WithSSL), but the caller's dial function hands back
	// a plain connection (a dialer that was meant to speak TLS and does not). The connection is
	// then unencrypted whatever the Client believes: clauses (iii) and (iv) apply to it.
	PlainDial bool `json:"plainDial,omitempty"`
	// SwitchPolicy: between the first and the second dial the caller calls SetTLSPolicy with this
	// policy; the second connection (and everything written after the switch) is judged by it.
	SwitchPolicy string `json:"switchPolicy,omitempty"`
	// Redial: instead of two DialAndSend calls: DialWithContext, (switch,) DialWithContext again
	// without a Close in between, Send, Close.
	Redial bool `json:"redial,omitempty"`
	// DialFail: the n-th dial fails without a connection (the Client then tries its fallback port).
	DialFail int `json:"dialFail,omitempty"`
}

type c07 struct{ cache map[string][]C07Scenario }

func init() { register(&c07{cache: map[string][]C07Scenario{}}) }

func (*c07) ID() string                     { return "C07" }
func (*c07) Level() string                  { return "fault_enumeration" }
func (*c07) Decode(raw []byte) (any, error) { return decodeInto[C07Scenario](raw) }

var c07AuthTypes = []string{"", "PLAIN", "LOGIN", "PLAIN-NOENC", "LOGIN-NOENC", "CRAM-MD5", "XOAUTH2", "SCRAM-SHA-1", "SCRAM-SHA-256", "SCRAM-SHA-1-PLUS", "SCRAM-SHA-256-PLUS", "AUTODISCOVER", "NOAUTH", "CUSTOM-PLAIN", "CUSTOM-LOGIN", "CUSTOMNOENC-THEN-PLAIN", "CUSTOMNOENC-THEN-LOGIN", "NOENC-THEN-PLAIN", "NOENC-THEN-LOGIN"}

func (p *c07) build(seed uint64, tier string) []C07Scenario {
	key := fmt.Sprintf("%d/%s", seed, tier)
	if l, ok := p.cache[key]; ok {
		return l
	}
	r := sim.NewRand(sim.Derive(seed, 7))
	var out []C07Scenario
	authLists := [][]string{allMechs, {"PLAIN", "LOGIN"}, {"LOGIN", "PLAIN", "XOAUTH2", "CRAM-MD5"}, {"SCRAM-SHA-256-PLUS", "SCRAM-SHA-1-PLUS", "PLAIN"}, {}}
	// "localhost names" are exactly localhost, 127.0.0.1 and ::1; names that merely look like
	// them are ordinary remote hosts
	hosts := []string{"mx.sim.example", "localhost", "127.0.0.1", "localhost.attacker.example", "127.0.0.1.attacker.example"}
	if tier == "thorough" {
		hosts = append(hosts, "::1", "localhost-relay.example", "localhostx")
	}
	type srvB struct {
		label     string
		advertise bool
		reply     *refsmtpd.Action
		cert      string
		noEHLO    bool
	}
	var behaviours []srvB
	behaviours = append(behaviours, srvB{"tls-ok", true, nil, "valid", false})
	behaviours = append(behaviours, srvB{"no-starttls", false, nil, "valid", false})
	behaviours = append(behaviours, srvB{"no-starttls-but-accepts-it", false, nil, "valid", false})
	for _, a := range []refsmtpd.Action{{Code: 454, Text: "TLS not available"}, {Code: 554, Text: "no TLS for you"}, {Kind: "garbage"}, {Kind: "drop"},
		// well-formed replies of the other classes, after which the server goes on in clear
		{Code: 354, Text: "go ahead"}, {Code: 334, Text: "VXNlcm5hbWU6"}, {Code: 150, Text: "about to start"}, {Code: 250, Text: "ready to start TLS"}} {
		aa := a
		k := a.Kind
		if k == "" {
			k = fmt.Sprint(a.Code)
		}
		behaviours = append(behaviours, srvB{"starttls-" + k, true, &aa, "valid", false})
	}
	for _, c := range []string{"wrongname", "untrusted", "garbage", "stall"} {
		behaviours = append(behaviours, srvB{"cert-" + c, true, nil, c, false})
	}
	behaviours = append(behaviours, srvB{"ehlo-refused", true, nil, "valid", true})
	idx := 0
	for _, pol := range []string{"mandatory", "opportunistic", "none", "implicit"} {
		for _, auth := range c07AuthTypes {
			for _, host := range hosts {
				for _, b := range behaviours {
					if pol == "implicit" && !(b.label == "tls-ok" || strings.HasPrefix(b.label, "cert-")) {
						continue
					}
					lists := authLists
					if tier != "thorough" {
						lists = [][]string{authLists[0], authLists[1+idx%(len(authLists)-1)]}
					}
					for _, al := range lists {
						for _, ver := range []string{"1.2", "1.3"} {
							if ver == "1.2" && tier != "thorough" && idx%3 != 0 && !strings.HasSuffix(auth, "PLUS") {
								idx++
								continue
							}
							idx++
							user := fmt.Sprintf("u%dX%x", idx, r.Uint64()&0xffffff)
							pass := fmt.Sprintf("Pw%dZ%016xq", idx, r.Uint64())
							caps := []string{"8BITMIME"}
							if len(al) > 0 {
								caps = append(caps, authCaps(al...))
							}
							if b.advertise {
								caps = append(caps, "STARTTLS")
							}
							sc := C07Scenario{Label: fmt.Sprintf("%s|%s|%s|%s|auth-offer=%d|tls%s", pol, auth, host, b.label, len(al), ver),
								Client: ClientCfg{Host: host, TLSPolicy: pol, AuthType: auth, User: user, Pass: pass, TimeoutMs: 3000},
								Server: refsmtpd.Config{Caps: caps, NoEHLO: b.noEHLO, TLS: refsmtpd.TLSCfg{Cert: b.cert, Version: ver},
									Auth: refsmtpd.AuthCfg{User: user, Pass: pass, Salt: []byte("c07salt"), Iter: 4}},
								Sched: sim.Derive(seed, 7, uint64(idx))}
							if auth == "NOAUTH" {
								sc.Client.User, sc.Client.Pass = user, pass
							}
							if pol != "implicit" {
								// the policy reaches the Client in different ways; it is the same policy
								sc.Client.PolicyVia = []string{"", "", "setter", "port-setter", "port-option", "twice", "ssl-toggle"}[idx%7]
								if sc.Client.PolicyVia != "" {
									sc.Label += "|via=" + sc.Client.PolicyVia
								}
							}
							if b.reply != nil {
								sc.Server.Rules = []refsmtpd.Rule{{Verb: "STARTTLS", Nth: 1, Action: *b.reply}}
							}
							if pol == "implicit" {
								sc.Server.ImplicitTLS = true
							}
							if strings.HasPrefix(b.label, "cert-") && idx%2 == 0 {
								// a Client for the very name the wrong certificate is valid for
								sc.Client.Sibling = "other.sim.example"
								sc.Label += "|sibling"
							}
							out = append(out, sc)
							if pol != "implicit" && pol != "none" && b.label == "cert-wrongname" && idx%2 == 1 {
								// the caller's own tls.Config names no server, and the client introduces
								// itself (HELO) with the very name the presented certificate is valid for
								nn := sc
								nn.Client.Sibling = ""
								nn.Client.TLSConfigNoName = true
								nn.Client.HELO = "other.sim.example"
								nn.Label = strings.TrimSuffix(nn.Label, "|sibling") + "|tlsconfig-without-name"
								out = append(out, nn)
							}
							if pol == "implicit" && b.label == "tls-ok" && (auth == "AUTODISCOVER" || auth == "PLAIN" || auth == "LOGIN" || strings.HasPrefix(auth, "CUSTOM")) {
								pd := sc
								pd.PlainDial = true
								pd.Server.ImplicitTLS = false
								pd.Label += "|plain-dialer"
								out = append(out, pd)
							}
						}
					}
				}
			}
		}
	}
	// histories of two dials on one Client: the first peer offers TLS and every mechanism, the
	// second behaves differently (state carried over from the first dial must not weaken the
	// second)
	seconds := []struct {
		label string
		cfg   func(user, pass string) refsmtpd.Config
	}{
		{"then-no-starttls-plain-login", func(u, pw string) refsmtpd.Config {
			return refsmtpd.Config{Caps: []string{"8BITMIME", authCaps("PLAIN", "LOGIN")}, Auth: refsmtpd.AuthCfg{User: u, Pass: pw, Salt: []byte("c07salt"), Iter: 4}}
		}},
		{"then-no-starttls-all-mechs", func(u, pw string) refsmtpd.Config {
			return refsmtpd.Config{Caps: []string{"8BITMIME", authCaps(allMechs...)}, Auth: refsmtpd.AuthCfg{User: u, Pass: pw, Salt: []byte("c07salt"), Iter: 4}}
		}},
		{"then-cert-wrongname", func(u, pw string) refsmtpd.Config {
			return refsmtpd.Config{Caps: []string{"8BITMIME", "STARTTLS", authCaps(allMechs...)}, TLS: refsmtpd.TLSCfg{Cert: "wrongname"}, Auth: refsmtpd.AuthCfg{User: u, Pass: pw, Salt: []byte("c07salt"), Iter: 4}}
		}},
		{"then-starttls-refused", func(u, pw string) refsmtpd.Config {
			return refsmtpd.Config{Caps: []string{"8BITMIME", "STARTTLS", authCaps("PLAIN", "LOGIN")}, TLS: refsmtpd.TLSCfg{Cert: "valid"},
				Rules: []refsmtpd.Rule{{Verb: "STARTTLS", Nth: 1, Action: refsmtpd.Action{Code: 454, Text: "TLS not available"}}}, Auth: refsmtpd.AuthCfg{User: u, Pass: pw, Salt: []byte("c07salt"), Iter: 4}}
		}},
	}
	for _, pol := range []string{"mandatory", "opportunistic", "none"} {
		for _, auth := range c07AuthTypes {
			for _, host := range hosts {
				for si, sd := range seconds {
					idx++
					// what the first peer offers decides what a discovery would settle on
					firstOffer := [][]string{allMechs, {"PLAIN", "LOGIN"}, {"LOGIN"}, {"CRAM-MD5", "PLAIN"}}[(idx+si)%4]
					user := fmt.Sprintf("u%dX%x", idx, r.Uint64()&0xffffff)
					pass := fmt.Sprintf("Pw%dZ%016xq", idx, r.Uint64())
					sc := C07Scenario{Label: fmt.Sprintf("%s|%s|%s|tls-ok,%s|auth-offer=%d|tls1.3", pol, auth, host, sd.label, len(firstOffer)),
						Client: ClientCfg{Host: host, TLSPolicy: pol, AuthType: auth, User: user, Pass: pass, TimeoutMs: 3000},
						Server: refsmtpd.Config{Caps: []string{"8BITMIME", "STARTTLS", authCaps(firstOffer...)}, TLS: refsmtpd.TLSCfg{Cert: "valid", Version: "1.3"},
							Auth: refsmtpd.AuthCfg{User: user, Pass: pass, Salt: []byte("c07salt"), Iter: 4}},
						Sched: sim.Derive(seed, 7, uint64(idx))}
					second := sd.cfg(user, pass)
					sc.Second = &second
					out = append(out, sc)
				}
			}
		}
	}
	// the caller reconfigures the Client between two dials
	for _, auth := range []string{"AUTODISCOVER", "PLAIN", "LOGIN", "", "SCRAM-SHA-256", "CUSTOM-PLAIN"} {
		for _, host := range hosts {
			for _, sw := range []struct{ first, second string }{{"mandatory", "none"}, {"opportunistic", "none"}, {"none", "mandatory"}, {"none", "opportunistic"}, {"opportunistic", "mandatory"}} {
				for _, redial := range []bool{false, true} {
					idx++
					user := fmt.Sprintf("u%dX%x", idx, r.Uint64()&0xffffff)
					pass := fmt.Sprintf("Pw%dZ%016xq", idx, r.Uint64())
					acfg := refsmtpd.AuthCfg{User: user, Pass: pass, Salt: []byte("c07salt"), Iter: 4}
					sc := C07Scenario{Label: fmt.Sprintf("%s>%s|%s|%s|policy-switch,redial=%v|auth-offer=2|tls1.3", sw.first, sw.second, auth, host, redial),
						Client:       ClientCfg{Host: host, TLSPolicy: sw.first, AuthType: auth, User: user, Pass: pass, TimeoutMs: 3000},
						Server:       refsmtpd.Config{Caps: []string{"8BITMIME", "STARTTLS", authCaps(allMechs...)}, TLS: refsmtpd.TLSCfg{Cert: "valid", Version: "1.3"}, Auth: acfg},
						SwitchPolicy: sw.second, Redial: redial, Sched: sim.Derive(seed, 7, uint64(idx))}
					// the peer of the second connection: STARTTLS only where the new policy needs it
					second := refsmtpd.Config{Caps: []string{"8BITMIME", authCaps("PLAIN", "LOGIN")}, TLS: refsmtpd.TLSCfg{Cert: "valid", Version: "1.3"}, Auth: acfg}
					if sw.second != "none" {
						second.Caps = append(second.Caps, "STARTTLS")
					}
					sc.Second = &second
					out = append(out, sc)
				}
			}
		}
	}
	if DialSeam {
		// go-mail's own dialers (no WithDialContextFunc): implicit TLS through its tls.Dialer, the
		// fallback port behind WithSSLPort(true) — where the peer may speak TLS or plain SMTP —
		// and SetSSL(true) between two dials of one Client
		plainPeer := func(u, pw string) refsmtpd.Config {
			return refsmtpd.Config{Caps: []string{"8BITMIME", authCaps("PLAIN", "LOGIN", "CRAM-MD5")}, Auth: refsmtpd.AuthCfg{User: u, Pass: pw, Salt: []byte("c07salt"), Iter: 4}}
		}
		for _, auth := range []string{"", "PLAIN", "LOGIN", "AUTODISCOVER", "SCRAM-SHA-256-PLUS", "CUSTOM-PLAIN", "XOAUTH2", "CRAM-MD5"} {
			for _, host := range hosts {
				for _, cert := range []string{"valid", "wrongname", "untrusted", "garbage"} {
					for _, ver := range []string{"1.2", "1.3"} {
						for _, mode := range []string{"default-dialer", "default-dialer-fallback", "default-dialer-fallback-plain-peer", "default-dialer-plain-peer"} {
							if strings.Contains(mode, "plain-peer") && (cert != "valid" || ver != "1.3") {
								continue
							}
							if tier != "thorough" && ver == "1.2" && cert != "valid" {
								continue
							}
							idx++
							user := fmt.Sprintf("u%dX%x", idx, r.Uint64()&0xffffff)
							pass := fmt.Sprintf("Pw%dZ%016xq", idx, r.Uint64())
							beh := "tls-ok"
							if cert != "valid" {
								beh = "cert-" + cert
							}
							sc := C07Scenario{Label: fmt.Sprintf("implicit|%s|%s|%s|auth-offer=%d|tls%s|%s", auth, host, beh, len(allMechs), ver, mode),
								Client: ClientCfg{Host: host, TLSPolicy: "implicit", AuthType: auth, User: user, Pass: pass, TimeoutMs: 3000, DefaultDialer: true},
								Server: refsmtpd.Config{Caps: []string{"8BITMIME", authCaps(allMechs...)}, ImplicitTLS: true, TLS: refsmtpd.TLSCfg{Cert: cert, Version: ver},
									Auth: refsmtpd.AuthCfg{User: user, Pass: pass, Salt: []byte("c07salt"), Iter: 4}},
								Sched: sim.Derive(seed, 7, uint64(idx))}
							if strings.Contains(mode, "fallback") {
								sc.Client.SSLPort, sc.DialFail = true, 1
							}
							if strings.Contains(mode, "plain-peer") {
								sc.Server = plainPeer(user, pass)
							}
							out = append(out, sc)
						}
					}
				}
				// SetSSL(true) between two dials; the second peer speaks TLS, or plain SMTP
				for _, first := range []string{"none", "opportunistic", "mandatory"} {
					for _, peer2 := range []string{"tls", "plain"} {
						for _, redial := range []bool{false, true} {
							idx++
							user := fmt.Sprintf("u%dX%x", idx, r.Uint64()&0xffffff)
							pass := fmt.Sprintf("Pw%dZ%016xq", idx, r.Uint64())
							acfg := refsmtpd.AuthCfg{User: user, Pass: pass, Salt: []byte("c07salt"), Iter: 4}
							sc := C07Scenario{Label: fmt.Sprintf("%s>implicit|%s|%s|ssl-switch,peer2=%s,redial=%v|auth-offer=2|tls1.3|default-dialer", first, auth, host, peer2, redial),
								Client:       ClientCfg{Host: host, TLSPolicy: first, AuthType: auth, User: user, Pass: pass, TimeoutMs: 3000, DefaultDialer: true},
								Server:       refsmtpd.Config{Caps: []string{"8BITMIME", "STARTTLS", authCaps(allMechs...)}, TLS: refsmtpd.TLSCfg{Cert: "valid", Version: "1.3"}, Auth: acfg},
								SwitchPolicy: "implicit", Redial: redial, Sched: sim.Derive(seed, 7, uint64(idx))}
							second := plainPeer(user, pass)
							if peer2 == "tls" {
								second = refsmtpd.Config{Caps: []string{"8BITMIME", authCaps(allMechs...)}, ImplicitTLS: true, TLS: refsmtpd.TLSCfg{Cert: "valid", Version: "1.3"}, Auth: acfg}
							}
							sc.Second = &second
							out = append(out, sc)
						}
					}
				}
			}
		}
	}
	p.cache[key] = out
	return out
}

func (p *c07) Gen(seed uint64, i int, tier string) (any, bool) {
	l := p.build(seed, tier)
	// thorough: after the plain enumeration five more rounds of it in which everything the
	// enumeration leaves open about the Client is drawn afresh (debug logging, DSN, the NOOP probe,
	// the HELO name) and the run gets another schedule: none of that may matter to the policy
	rounds := 1
	if tier == "thorough" {
		rounds = 6
	}
	if len(l) == 0 || i >= len(l)*rounds {
		return nil, false
	}
	s := l[i%len(l)]
	if r := i / len(l); r > 0 {
		s.Server.Caps = append([]string(nil), s.Server.Caps...)
		helo := s.Client.HELO
		Swarm(sim.NewRand(sim.Derive(seed, 7, 555, uint64(i))), &s.Client, &s.Server.Caps)
		if helo != "" {
			s.Client.HELO = helo // part of the scenario (the name the wrong certificate is valid for)
		}
		s.Sched = sim.Derive(seed, 7, 556, uint64(i))
		s.Label += fmt.Sprintf("|round=%d", r)
	}
	return &s, true
}

func isLocalName(h string) bool { return h == "localhost" || h == "127.0.0.1" || h == "::1" }

// tlsRecordsOnly checks that b is a sequence of well-formed TLS record headers with their
// payloads (a trailing partial record is accepted).
func tlsRecordsOnly(b []byte) (bool, int) {
	i := 0
	for i < len(b) {
		if len(b)-i < 5 {
			return true, i
		}
		typ, maj, ln := b[i], b[i+1], int(b[i+3])<<8|int(b[i+4])
		if typ < 20 || typ > 23 || maj != 3 || ln > 16384+2048 {
			return false, i
		}
		i += 5 + ln
	}
	return true, i
}

func (p *c07) Exec(t *testing.T, scAny any) Outcome {
	sc := scAny.(*C07Scenario)
	var out Outcome
	send := &SendScenario{Client: sc.Client, Server: sc.Server, Op: "dialandsend", Sched: sc.Sched,
		Batches: [][]MsgSpec{{SimpleMsg("c07")}}}
	hook := func(e *NetEnv) {
		if sc.Client.TLSPolicy == "implicit" && !sc.PlainDial && !sc.Client.DefaultDialer {
			e.ImplicitTLS = true
		}
		if sc.Second != nil {
			e.Later = []*refsmtpd.Server{refsmtpd.New(e.K, *sc.Second, TLSMat)}
		}
	}
	if sc.Second != nil {
		send.Op = "dialandsend2"
		send.Batches = append(send.Batches, []MsgSpec{SimpleMsg("c07b")})
	}
	send.SwitchPolicy = sc.SwitchPolicy
	send.DialFail = sc.DialFail
	if sc.Redial {
		send.Op = "dial-redial-send"
		send.Batches = [][]MsgSpec{{SimpleMsg("c07r")}}
	}
	run := execSendWith(t, send, hook)
	run.fill(&out)
	if out.Infra != "" {
		return out
	}
	out.Key = sc.Label
	out.Nontrivial = true
	if len(run.Env.Pipes) == 0 {
		out.stat("trivial.no-connection", 1)
		out.Nontrivial = false
		return out
	}
	for _, c := range run.Env.Calls {
		if c.Panic != nil {
			out.violate("C07:panic", "%s panicked: %v\n%s", c.Name, c.Panic, c.PanicStack)
		}
	}
	for i, pipe := range run.Env.Pipes {
		srv := run.Env.ServerOf(pipe.ID)
		which := "first"
		if i > 0 {
			which = "second"
			out.stat("probe.second-connection-judged", 1)
		}
		jsc := sc
		if i > 0 && sc.SwitchPolicy != "" {
			// the second connection was made under the new policy
			c := *sc
			c.Client.TLSPolicy = sc.SwitchPolicy
			jsc = &c
		}
		p.judgeConn(&out, jsc, pipe, srv, which)
		if i == 0 && run.Switched && len(run.SwitchOffsets) > 0 && sc.SwitchPolicy == "mandatory" && sc.Client.TLSPolicy == "none" {
			// what the client wrote on the old, unencrypted connection after the caller had
			// switched to mandatory TLS and dialled again
			all := pipe.C2S()
			if off := run.SwitchOffsets[0]; off < int64(len(all)) {
				for _, line := range strings.Split(string(all[off:]), "\r\n") {
					verb := strings.ToUpper(strings.SplitN(line, " ", 2)[0])
					if line == "" || verb == "QUIT" {
						continue
					}
					out.violate("C07:mandatory-tls-cleartext-command:after-policy-switch", "after SetTLSPolicy(TLSMandatory) and a new DialWithContext the client wrote %q in clear on the connection of the earlier dial", clipStr(line, 80))
					break
				}
			}
		}
	}
	return out
}

// judgeConn applies the four clauses to one connection.
func (p *c07) judgeConn(out *Outcome, sc *C07Scenario, pipe *sim.Pipe, srv *refsmtpd.Server, which string) {
	c2s := pipe.C2S()
	h := srv.H
	pol := sc.Client.TLSPolicy
	site := pol + ":" + strings.Split(sc.Label, "|")[3]
	if which == "second" {
		site += ":second-dial"
	}
	// where does TLS start in the client's byte stream?
	clearEnd := len(c2s)
	tlsStarted := false
	if pol == "implicit" && sc.PlainDial {
		pol = "implicit-plaindial" // everything the client writes is clear
	} else if pol == "implicit" {
		clearEnd = 0
		tlsStarted = true
	} else {
		for _, e := range h.Events {
			if e.Kind == "reply" && e.Verb == "STARTTLS" && e.Code == 220 && e.Action == "reply" && !e.TLS && e.Conn == pipe.ID {
				if i := bytes.Index(bytes.ToUpper(c2s), []byte("STARTTLS\r\n")); i >= 0 {
					clearEnd = i + len("STARTTLS\r\n")
					tlsStarted = true
				}
			}
		}
	}
	clear := c2s[:clearEnd]
	if tlsStarted {
		out.stat("probe.tls-started", 1)
		if ok, at := tlsRecordsOnly(c2s[clearEnd:]); !ok {
			out.violate("C07:plaintext-after-tls-start:"+site, "after TLS was to start the client wrote bytes that are not TLS records at offset %d: %q", clearEnd+at, clip(c2s[clearEnd+at:], 80))
		}
		if pol == "implicit" && len(c2s) > 0 && c2s[0] != 0x16 {
			out.violate("C07:implicit-tls-cleartext", "implicit TLS: the first byte the client wrote is %#x, not a TLS handshake record", c2s[0])
		}
	}
	// (i) cleartext commands under mandatory TLS
	var clearCmds []string
	authMechClear := ""
	for _, line := range strings.Split(string(clear), "\r\n") {
		if line == "" {
			continue
		}
		verb := strings.ToUpper(strings.SplitN(line, " ", 2)[0])
		clearCmds = append(clearCmds, verb)
		if verb == "AUTH" {
			f := strings.Fields(line)
			if len(f) >= 2 {
				authMechClear = strings.ToUpper(f[1])
			}
		}
	}
	if pol == "mandatory" {
		for _, v := range clearCmds {
			if v != "EHLO" && v != "HELO" && v != "STARTTLS" && v != "QUIT" {
				cls := v
				switch v {
				case "AUTH", "MAIL", "RCPT", "DATA", "NOOP", "RSET", "VRFY":
				default:
					cls = "other-data" // SASL responses, message content, …
				}
				out.violate("C07:mandatory-tls-cleartext-command:"+cls, "mandatory TLS: the client sent %q in clear on its %s connection (cleartext dialogue: %q); server behaviour %s", v, which, clipStr(string(clear), 300), sc.Label)
			}
		}
	}
	// (ii) nothing inside TLS when the certificate is not valid for the host
	cert := srv.Cfg.TLS.Cert
	hostCovered := false
	for _, n := range append(append([]string(nil), refsmtpd.ServerNames...), "127.0.0.1", "::1") {
		if n == sc.Client.host() {
			hostCovered = true
		}
	}
	badCert := cert == "wrongname" || cert == "untrusted" || cert == "garbage" || cert == "stall" || (cert == "valid" && !hostCovered)
	if badCert {
		for _, e := range h.Events {
			if e.Kind == "cmd" && e.TLS && e.Conn == pipe.ID {
				out.violate("C07:command-inside-unverified-tls:"+cert, "the server presented a certificate that is not valid for host %s (%s), yet the client sent %q inside that TLS session", sc.Client.host(), cert, e.Line)
				break
			}
		}
		if tlsStarted {
			out.stat("fault.fired.tls_cert_not_valid_for_host", 1)
		}
	}
	// (iii) the password never in clear
	auth := sc.Client.AuthType
	noenc := strings.HasSuffix(auth, "-NOENC")
	if sc.Client.Pass != "" && auth != "" {
		pw := sc.Client.Pass
		forms := map[string]string{
			"raw": pw, "base64": base64.StdEncoding.EncodeToString([]byte(pw)), "base64url": base64.URLEncoding.EncodeToString([]byte(pw)),
			"plain-triple": base64.StdEncoding.EncodeToString([]byte("\x00" + sc.Client.User + "\x00" + pw)),
		}
		for name, f := range forms {
			if bytes.Contains(clear, []byte(f)) {
				mech := authMechClear
				if mech == "" {
					mech = "none"
				}
				switch {
				case noenc || isLocalName(sc.Client.host()):
					out.stat("probe.password-in-clear-allowed(noenc-or-localhost)", 1)
				case mech == "XOAUTH2":
					out.stat("probe.xoauth2-token-in-clear-not-judged", 1)
				default:
					out.violate("C07:password-in-clear:"+mech+":"+pol, "the password (%s form) of auth type %s went over the wire in clear with mechanism %s, policy %s, host %s, %s connection (server behaviour %s)", name, auth, mech, pol, sc.Client.host(), which, sc.Label)
				}
			}
		}
	}
	// (iv) discovery on an unencrypted connection
	if auth == "AUTODISCOVER" && (authMechClear == "PLAIN" || authMechClear == "LOGIN") {
		out.violate("C07:autodiscover-chose-"+authMechClear+"-unencrypted", "auto-discovery selected %s on an unencrypted connection (policy %s, %s connection, server offered %v)", authMechClear, pol, which, srv.Cfg.Caps)
	}
	if authMechClear != "" {
		out.stat("probe.auth-in-clear."+authMechClear, 1)
	}
	for _, e := range h.Events {
		if e.Kind == "auth" && e.Text == "success" {
			out.stat("probe.auth-success."+map[bool]string{true: "tls", false: "clear"}[e.TLS], 1)
		}
	}
	if len(h.Commits) > 0 {
		out.stat("probe.message-delivered", 1)
	}
}

func (p *c07) Shrink(scAny any) []any { return nil }

func (p *c07) Info() PropInfo {
	return PropInfo{
		Rule: "enumeration: TLS policy {mandatory, opportunistic, none, implicit} x 15 auth configurations (none, all 13 SMTPAuthType values, custom PLAIN/LOGIN Auth values) x host {mx.sim.example, localhost, 127.0.0.1 (thorough: ::1)} x server behaviour {TLS fine; STARTTLS not advertised (and refused / nevertheless accepted); STARTTLS answered 454 / 554 / 354 / 334 / 150 / 250 (and going on in clear) / garbage / disconnect; certificate for another name / from an untrusted issuer / garbage bytes / stall instead of a handshake; EHLO refused} x advertised AUTH lists x the way the policy reaches the Client {WithTLSPolicy, SetTLSPolicy after a weaker policy, SetTLSPortPolicy on a Client with an explicit port and a weaker policy, WithPort then WithTLSPortPolicy, WithTLSPortPolicy twice, WithTLSPolicy followed by SetSSL(true) and SetSSL(false)} x {alone, with a sibling Client created for the host name the wrong certificate is valid for} x TLS 1.2 / 1.3; implicit TLS additionally with a dial function that returns a plain connection (quick: a third of the 1.2 cases and two AUTH lists per cell), plus the caller switching the policy between two dials (two DialAndSend calls, or DialWithContext twice without Close and then Send); and go-mail's own dialers (no WithDialContextFunc): implicit TLS through its tls.Dialer x certificate kinds, WithSSLPort(true) with a failing first dial and a TLS or plain-SMTP peer on the fallback port, SetSSL(true) between two dials with a TLS or plain-SMTP second peer; each for DialAndSend of one message with unique high-entropy credentials; every run with a connection is non-trivial; distinct = distinct labels",
		Assumptions: []string{"cleartext = every byte the client wrote before the line STARTTLS that the server answered with 220 (inclusive); everything after it must be TLS records",
			"implicit TLS is exercised both through a dial function that wraps the simulated connection in tls.Client and through go-mail's own tls.Dialer (dial seam of the scratch copy)",
			"an XOAUTH2 token under an explicit no-TLS policy is recorded, not judged (the statement names PLAIN and LOGIN)"},
		Real:        []string{"go-mail Client.tls / auth / authTypeAutoDiscover, smtp.Client.StartTLS, plainAuth/loginAuth guards, default tls.Config", "crypto/tls on both ends with a simulator CA"},
		Stubbed:     []string{"TCP with a byte-exact tap", "SMTP/TLS server behaviour (scripted)", "clock", "crypto/rand", "trust store (SSL_CERT_FILE)", "the socket under go-mail's default dialers (type names net.Dialer / tls.Dialer rewritten to simhook.NetDialer / simhook.TLSDialer in the scratch copy; TLSDialer.DialContext follows crypto/tls.(*Dialer).DialContext step by step, 25 lines)"},
		NotCovered:  []string{"unix sockets"},
		Exhaustive:  func(string) bool { return true },
		QuickBudget: 100 * time.Second, ThoroughBudget: 25 * time.Minute,
	}
}

var _ = time.Second
