package props

import (
	"context"
	"errors"
	"fmt"
	"strings"
	"testing"
	"time"

	mail "github.com/wneessen/go-mail"
	mlog "github.com/wneessen/go-mail/log"
	"github.com/wneessen/go-mail/smtp"

	"verif/sim/refsmtpd"
	"verif/sim/sim"
)

// SendScenario is the common scenario of the properties that drive dial + send against a
// scripted server.
type SendScenario struct {
	Label  string          `json:"label,omitempty"`
	Client ClientCfg       `json:"client"`
	Server refsmtpd.Config `json:"server"`
	Conn   sim.ConnFaults  `json:"conn,omitempty"`
	// Op: dialandsend | send (DialWithContext, then Send, then Close) | reset (dial, Reset) |
	// dial (DialWithContext only)
	Op string `json:"op"`
	// Batches: each inner list is one Send call's messages (send op may have several).
	Batches [][]MsgSpec `json:"batches,omitempty"`
	// PreRender renders every message once before sending (so Send does not see a fresh Msg).
	PreRender bool `json:"preRender,omitempty"`
	// Resend: after the operation, every message that carries a send error is handed to a
	// second DialAndSend on the same Client (a caller retrying what failed).
	Resend bool `json:"resend,omitempty"`
	// DialFail: the n-th call of the dial function (1-based) fails without opening a connection
	// (the client then tries its fallback port, if it has one).
	DialFail int `json:"dialFail,omitempty"`
	// Second: how the peer behaves from the second connection on (nil: like the first).
	Second *refsmtpd.Config `json:"second,omitempty"`
	// SwitchPolicy: before the second dial of the ops dialandsend2 and dial-redial-send the caller
	// reconfigures the Client with SetTLSPolicy(SwitchPolicy).
	SwitchPolicy string `json:"switchPolicy,omitempty"`
	// CancelMidContent: the caller's context (DialAndSendWithContext) is cancelled while the
	// content of a message is being produced, after the dial has long succeeded.
	CancelMidContent bool `json:"cancelMidContent,omitempty"`
	// SlowProducerMs: the first writer-backed content of the send pauses for that long (virtual
	// time) half-way through — a producer that waits for its own source, well inside the
	// client's timeout.
	SlowProducerMs int `json:"slowProducerMs,omitempty"`
	// DialBlocks: the dial function itself blocks until its context is done.
	DialBlocks bool `json:"dialBlocks,omitempty"`
	// CtxMs: when > 0 the caller's context carries a deadline of its own, CtxMs from the start
	// of the call (DialWithContext / DialAndSendWithContext); otherwise context.Background().
	CtxMs  int        `json:"ctxMs,omitempty"`
	Sched  uint64     `json:"sched"`
	Policy sim.Policy `json:"policy,omitempty"`
}

// switchPolicy is the caller reconfiguring the Client between two dials; the number of bytes the
// client has written on each connection so far is recorded (what is written later was written
// under the new policy).
func switchPolicy(c *mail.Client, sc *SendScenario, run *SendRun, env *NetEnv) {
	run.SwitchOffsets = nil
	for _, p := range env.Pipes {
		run.SwitchOffsets = append(run.SwitchOffsets, p.C2SLen())
	}
	run.Switched = true
	switch sc.SwitchPolicy {
	case "mandatory":
		c.SetTLSPolicy(mail.TLSMandatory)
	case "opportunistic":
		c.SetTLSPolicy(mail.TLSOpportunistic)
	case "none":
		c.SetTLSPolicy(mail.NoTLS)
	case "implicit":
		c.SetSSL(true)
	}
}

func callCtx(sc *SendScenario) (context.Context, context.CancelFunc) {
	if sc.CancelMidContent {
		ctx, cancel := context.WithCancel(context.Background())
		MidContentHook = func() { cancel() }
		return ctx, func() { MidContentHook = nil; cancel() }
	}
	if sc.CtxMs > 0 {
		return context.WithTimeout(context.Background(), time.Duration(sc.CtxMs)*time.Millisecond)
	}
	return context.Background(), func() {}
}

// MsgState is what the caller can see on a Msg after the call.
type MsgState struct {
	Delivered bool
	HasErr    bool
	SE        *mail.SendError
	ErrText   string
}

// SendRun is everything observable about one executed SendScenario.
type SendRun struct {
	SlowProducerFired bool
	Sc                *SendScenario
	Env               *NetEnv
	Res               RunResult
	Built             [][]*Built
	States            [][]MsgState
	// Calls by name in order; Target is the judged call of each batch (or the single op).
	// Switched / SwitchOffsets: see switchPolicy
	Switched      bool
	SwitchOffsets []int64
	DialCall      *CallRec
	SendCalls     []*CallRec
	CloseCall     *CallRec
	// ResendCall is the retry of the failed messages (nil if none took place); Resent lists them.
	ResendCall *CallRec
	Resent     map[string]bool
	// Reference renderings taken by the harness with healthy producers.
	Pre, Post [][][]byte
	PostErr   [][]error
	Infra     string
	Logger    *CaptureLogger
}

// CaptureLogger records every log.Log handed to it.
type CaptureLogger struct {
	Records []LogRec
	raw     []mlog.Log
}

// Late formats the records now — the way a logger does that collects what it is handed and
// writes it out later, on another goroutine or in batches. What a record shows must not depend
// on when it is formatted.
func (c *CaptureLogger) Late() []string {
	var out []string
	for _, l := range c.raw {
		out = append(out, fmt.Sprintf(l.Format, l.Messages...))
	}
	return out
}

// LogRec is one captured record, formatted.
type LogRec struct {
	Level string
	Dir   string
	Text  string
}

func (c *CaptureLogger) rec(level string, l mlog.Log) {
	d := "C->S"
	if l.Direction == mlog.DirServerToClient {
		d = "S->C"
	}
	c.Records = append(c.Records, LogRec{Level: level, Dir: d, Text: fmt.Sprintf(l.Format, l.Messages...)})
	c.raw = append(c.raw, l)
}
func (c *CaptureLogger) Debugf(l mlog.Log) { c.rec("debug", l) }
func (c *CaptureLogger) Infof(l mlog.Log)  { c.rec("info", l) }
func (c *CaptureLogger) Warnf(l mlog.Log)  { c.rec("warn", l) }
func (c *CaptureLogger) Errorf(l mlog.Log) { c.rec("error", l) }

// ExecSend runs a SendScenario in a fresh simulated world.
func ExecSend(t *testing.T, sc *SendScenario, logger mlog.Logger) *SendRun {
	return execSendHook(t, sc, logger, nil)
}

// execSendWith is ExecSend with a hook that adjusts the environment before the run starts.
func execSendWith(t *testing.T, sc *SendScenario, hook func(e *NetEnv)) *SendRun {
	return execSendHook(t, sc, nil, hook)
}

func execSendHook(t *testing.T, sc *SendScenario, logger mlog.Logger, hook func(e *NetEnv)) *SendRun {
	run := &SendRun{Sc: sc}
	if logger == nil && sc.Client.Debug {
		run.Logger = &CaptureLogger{}
		logger = run.Logger
	}
	pol := sc.Policy
	if pol.Kind == "" {
		pol.Kind = "random"
	}
	run.Res = RunSim(t, sc.Sched, pol, 0, 2*time.Hour, func(k *sim.Kernel) (func(), func()) {
		env := &NetEnv{K: k, Srv: refsmtpd.New(k, sc.Server, TLSMat), Faults: []sim.ConnFaults{sc.Conn}, Host: sc.Client.host(), DialFail: sc.DialFail, DialBlocks: sc.DialBlocks}
		run.Env = env
		if sc.Second != nil {
			env.Later = []*refsmtpd.Server{refsmtpd.New(k, *sc.Second, TLSMat)}
		}
		if hook != nil {
			hook(env)
		}
		return func() {
			c, err := BuildClient(sc.Client, env.Dial, logger)
			if err != nil {
				run.Infra = "client construction: " + err.Error()
				return
			}
			for _, batch := range sc.Batches {
				var bs []*Built
				for _, ms := range batch {
					b := BuildMsg(ms, BuildOpts{SMIMEKeys: SMIME})
					if b.BuildErr != nil {
						run.Infra = "message construction: " + b.BuildErr.Error()
						return
					}
					bs = append(bs, b)
				}
				run.Built = append(run.Built, bs)
			}
			render := func() ([][][]byte, [][]error) {
				var out [][][]byte
				var errs [][]error
				for _, bs := range run.Built {
					var o [][]byte
					var es []error
					for _, b := range bs {
						if b.Msg == nil {
							o = append(o, nil)
							es = append(es, nil)
							continue
						}
						saved := make([]ContentSpec, len(b.Producers))
						for i, p := range b.Producers {
							saved[i] = p.Spec
							p.Spec.Fail = false
						}
						data, err := Render(b.Msg)
						for i, p := range b.Producers {
							p.Spec = saved[i]
						}
						o = append(o, data)
						es = append(es, err)
					}
					out = append(out, o)
					errs = append(errs, es)
				}
				return out, errs
			}
			if sc.PreRender {
				run.Pre, _ = render()
			}
			// producers count invocations from the send on
			for _, bs := range run.Built {
				for _, b := range bs {
					for _, p := range b.Producers {
						p.Calls = 0
					}
					b.ResetCounters()
				}
			}
			if sc.SlowProducerMs > 0 && !sc.CancelMidContent {
				MidContentHook = func() {
					run.SlowProducerFired = true
					env.K.Sleep(time.Duration(sc.SlowProducerMs) * time.Millisecond)
				}
				defer func() { MidContentHook = nil }()
			}
			msgsOf := func(bs []*Built) []*mail.Msg {
				var ms []*mail.Msg
				for _, b := range bs {
					ms = append(ms, b.Msg)
				}
				return ms
			}
			switch sc.Op {
			case "dial":
				run.DialCall = env.Call("DialWithContext", func() error { ctx, cancel := callCtx(sc); defer cancel(); return c.DialWithContext(ctx) })
				if run.DialCall.Err == nil && run.DialCall.Panic == nil {
					run.CloseCall = env.Call("Close", c.Close)
				}
			case "dialandsend":
				var ms []*mail.Msg
				if len(run.Built) > 0 {
					ms = msgsOf(run.Built[0])
				}
				run.SendCalls = append(run.SendCalls, env.Call("DialAndSend", func() error {
					if sc.CtxMs > 0 || sc.CancelMidContent {
						ctx, cancel := callCtx(sc)
						defer cancel()
						return c.DialAndSendWithContext(ctx, ms...)
					}
					return c.DialAndSend(ms...)
				}))
			case "dialandsend2":
				// two DialAndSend calls on the same Client (the peer may behave differently)
				for bi, bs := range run.Built {
					if bi == 1 {
						switchPolicy(c, sc, run, env)
					}
					ms := msgsOf(bs)
					call := env.Call("DialAndSend", func() error {
						if sc.CtxMs > 0 {
							ctx, cancel := callCtx(sc)
							defer cancel()
							return c.DialAndSendWithContext(ctx, ms...)
						}
						return c.DialAndSend(ms...)
					})
					run.SendCalls = append(run.SendCalls, call)
					if !call.Returned {
						break
					}
				}
			case "sendwith":
				// the caller makes the smtp.Client itself (smtp.NewClient on its own connection;
				// nothing has been said on it yet) and hands it to SendWithSMTPClient
				conn, derr := env.Dial(context.Background(), "tcp", sc.Client.host()+":25")
				if derr != nil {
					run.Infra = "dial: " + derr.Error()
					return
				}
				sclient, nerr := smtp.NewClient(conn, sc.Client.host())
				if nerr != nil {
					run.DialCall = &CallRec{Name: "smtp.NewClient", Err: nerr, Returned: true}
					break
				}
				for _, bs := range run.Built {
					ms := msgsOf(bs)
					call := env.Call("Send", func() error { return c.SendWithSMTPClient(sclient, ms...) })
					run.SendCalls = append(run.SendCalls, call)
					if !call.Returned {
						break
					}
				}
				run.CloseCall = env.Call("Close", func() error { return c.CloseWithSMTPClient(sclient) })
			case "dial-redial-send":
				// DialWithContext, no Close, (the caller reconfigures the Client,) DialWithContext
				// again, Send, Close: what is sent after the second dial belongs to the second dial
				first := env.Call("DialWithContext", func() error { return c.DialWithContext(context.Background()) })
				if first.Err != nil || first.Panic != nil || !first.Returned {
					run.DialCall = first
					break
				}
				switchPolicy(c, sc, run, env)
				run.DialCall = env.Call("DialWithContext", func() error { ctx, cancel := callCtx(sc); defer cancel(); return c.DialWithContext(ctx) })
				if run.DialCall.Err == nil && run.DialCall.Panic == nil && run.DialCall.Returned {
					for _, bs := range run.Built {
						ms := msgsOf(bs)
						call := env.Call("Send", func() error { return c.Send(ms...) })
						run.SendCalls = append(run.SendCalls, call)
						if !call.Returned {
							break
						}
					}
					run.CloseCall = env.Call("Close", c.Close)
				}
			case "send":
				run.DialCall = env.Call("DialWithContext", func() error { ctx, cancel := callCtx(sc); defer cancel(); return c.DialWithContext(ctx) })
				if run.DialCall.Err == nil && run.DialCall.Panic == nil && run.DialCall.Returned {
					for _, bs := range run.Built {
						ms := msgsOf(bs)
						call := env.Call("Send", func() error { return c.Send(ms...) })
						run.SendCalls = append(run.SendCalls, call)
						if !call.Returned {
							break
						}
					}
					run.CloseCall = env.Call("Close", c.Close)
				}
			case "reset":
				run.DialCall = env.Call("DialWithContext", func() error { ctx, cancel := callCtx(sc); defer cancel(); return c.DialWithContext(ctx) })
				if run.DialCall.Err == nil && run.DialCall.Panic == nil && run.DialCall.Returned {
					run.SendCalls = append(run.SendCalls, env.Call("Reset", c.Reset))
					run.CloseCall = env.Call("Close", c.Close)
				}
			default:
				run.Infra = "unknown op " + sc.Op
				return
			}
			if k.Aborting() {
				return
			}
			if sc.Resend {
				var again []*mail.Msg
				run.Resent = map[string]bool{}
				for _, bs := range run.Built {
					for _, b := range bs {
						if b.Msg != nil && b.Msg.HasSendError() {
							again = append(again, b.Msg)
							run.Resent[b.Spec.Token] = true
						}
					}
				}
				if len(again) > 0 {
					if run.CloseCall == nil && sc.Op != "dialandsend" {
						run.CloseCall = env.Call("Close", c.Close)
					}
					run.ResendCall = env.Call("DialAndSend(resend)", func() error { return c.DialAndSend(again...) })
					if k.Aborting() {
						return
					}
				}
			}
			for _, bs := range run.Built {
				var st []MsgState
				for _, b := range bs {
					var s MsgState
					if b.Msg != nil {
						s.Delivered = b.Msg.IsDelivered()
						s.HasErr = b.Msg.HasSendError()
						if e := b.Msg.SendError(); e != nil {
							s.ErrText = e.Error()
							var se *mail.SendError
							if errors.As(e, &se) {
								s.SE = se
							}
						}
					}
					st = append(st, s)
				}
				run.States = append(run.States, st)
			}
			run.Post, run.PostErr = render()
		}, env.Freeze
	})
	if run.Infra == "" && run.Res.BubbleErr != "" {
		if run.Res.Externals > 0 && strings.Contains(run.Res.BubbleErr, "blocked goroutines remain") {
			// A task blocked for ever on something inside the library that is neither the
			// simulated connection nor a lock (seen on broken trees: net/textproto's response
			// sequencer). The call never returned; that is a verdict for the properties to draw,
			// not harness trouble. The goroutine is leaked with its bubble.
			run.Res.Verdict = sim.Quiescent
		} else {
			run.Infra = "bubble: " + run.Res.BubbleErr
		}
	}
	return run
}

// fill copies the generic run numbers into an outcome.
func (r *SendRun) fill(out *Outcome) {
	out.SimNs, out.Steps, out.Digest = r.Res.VirtualNs, r.Res.Steps, r.Res.Digest
	out.Infra = r.Infra
	if r.Res.Adoptions > 0 {
		out.stat("probe.goroutine-of-the-program-adopted", r.Res.Adoptions)
	}
	if r.Env != nil {
		for _, p := range r.Env.Pipes {
			if p.ResetFired {
				out.stat("fault.fired.reset", 1)
			}
			if p.WriteFailFired {
				out.stat("fault.fired.write_fail", 1)
			}
			a, b, c := p.Fired()
			if a {
				out.stat("fault.fired.stall_s2c", 1)
			}
			if b {
				out.stat("fault.fired.drip_s2c", 1)
			}
			if c {
				out.stat("fault.fired.stall_c2s", 1)
			}
			if p.Client.TimeoutsFired > 0 {
				out.stat("fault.fired.deadline_expired", p.Client.TimeoutsFired)
			}
		}
		for _, e := range r.Env.Srv.H.Events {
			if e.Kind == "reply" {
				switch {
				case e.Action == "drop":
					out.stat("fault.fired.disconnect", 1)
				case e.Action == "stall":
					out.stat("fault.fired.stall", 1)
				case e.Action == "garbage":
					out.stat("fault.fired.garbage_reply", 1)
				case e.Action == "close-after":
					out.stat("fault.fired.reply_then_close", 1)
				case e.Code >= 400 && e.Code < 500:
					out.stat("fault.fired.reply_4yz", 1)
				case e.Code >= 500:
					out.stat("fault.fired.reply_5yz", 1)
				}
			}
		}
	}
}

// joined splits an error returned by Send into its parts.
func joined(err error) []error {
	if err == nil {
		return nil
	}
	if j, ok := err.(interface{ Unwrap() []error }); ok {
		return j.Unwrap()
	}
	// fmt.Errorf("...: %w") wrappers around a join
	if u := errors.Unwrap(err); u != nil {
		if j, ok := u.(interface{ Unwrap() []error }); ok {
			return j.Unwrap()
		}
	}
	return []error{err}
}

// replies returns the server's reply events.
func replies(h *refsmtpd.History) []refsmtpd.Event {
	var out []refsmtpd.Event
	for _, e := range h.Events {
		if e.Kind == "reply" {
			out = append(out, e)
		}
	}
	return out
}

// scriptSig is a compact signature of a rule list for keys and tags.
func scriptSig(rs []refsmtpd.Rule) string {
	var b strings.Builder
	for _, r := range rs {
		k := r.Kind
		if k == "" {
			k = fmt.Sprintf("%dyz", r.Code/100)
		}
		fmt.Fprintf(&b, "%s#%d=%s;", r.Verb, r.Nth, k)
	}
	return b.String()
}
