package props

import (
	"errors"
	"fmt"
	"sort"
	"strings"
	"testing"
	"time"

	mail "github.com/wneessen/go-mail"

	"verif/sim/refsmtpd"
	"verif/sim/sim"
)

// C20 — SendError reflects the server's verdict.
//
// Enumerated: reply code 400..599 × text form {no enhanced code, enhanced code at the start,
// enhanced-code-like triple later in the text, multi-line} × command position {MAIL, RCPT i,
// DATA, end-of-data, RSET} × ENHANCEDSTATUSCODES advertised or not, in batches of 1..3 fresh
// messages with 1..3 recipients; plus sampled scenarios with several rejected recipients.
// Oracle: the SendError fields of every message against the replies the server actually sent
// for that message (read from the server history).

type c20 struct{}

func init() { register(&c20{}) }

func (*c20) ID() string                     { return "C20" }
func (*c20) Level() string                  { return "fault_enumeration" }
func (*c20) Decode(raw []byte) (any, error) { return decodeInto[SendScenario](raw) }

var c20Forms = []string{"plain", "enh", "late-triple", "multiline", "enh-bare", "multiline-bare-first", "enh-crossclass"}
var c20Pos = []string{"MAIL", "RCPT", "DATA", "EOD", "RSET"}

// c20EscSpelling: extension keywords are not case sensitive (RFC 5321 2.4); a few servers do
// not write them in upper case.
func c20EscSpelling(i int) string {
	switch i % 7 {
	case 3:
		return "EnhancedStatusCodes"
	case 5:
		return "enhancedstatuscodes"
	}
	return "ENHANCEDSTATUSCODES"
}

func c20Action(code int, form string) refsmtpd.Action {
	cls := code / 100
	switch form {
	case "enh":
		return refsmtpd.Action{Code: code, Enh: fmt.Sprintf("%d.%d.%d", cls, 1+code%7, code%10), Text: "request refused by policy"}
	case "enh-crossclass":
		// the class of the enhanced code contradicts the reply code (seen from servers that
		// pass on a code of their own back end): the reply code decides what the reply is
		return refsmtpd.Action{Code: code, Enh: fmt.Sprintf("%d.%d.%d", 9-cls, 1+code%7, code%10), Text: "verdict passed on from the back end"}
	case "late-triple":
		return refsmtpd.Action{Code: code, Text: fmt.Sprintf("refused: client [10.%d.7.1] is listed, see rule 2.0.1", cls)}
	case "enh-bare":
		return refsmtpd.Action{Code: code, Enh: fmt.Sprintf("%d.%d.%d", cls, 1+code%7, code%10), Bare: true}
	case "multiline-bare-first":
		return refsmtpd.Action{Code: code, Enh: fmt.Sprintf("%d.7.1", cls), Bare: true, Text: "\nthe verdict comes on the second line"}
	case "multiline":
		return refsmtpd.Action{Code: code, Enh: fmt.Sprintf("%d.7.1", cls), Text: "first line of the verdict\nsecond line of the verdict"}
	}
	return refsmtpd.Action{Code: code, Text: "request refused by policy"}
}

func (p *c20) Gen(seed uint64, i int, tier string) (any, bool) {
	nEnum := 200 * len(c20Forms) * len(c20Pos) * 2
	extra := 30000
	if tier == "thorough" {
		extra = 1200000
	}
	if i >= nEnum+extra {
		return nil, false
	}
	r := sim.NewRand(sim.Derive(seed, 20, uint64(i)))
	nm := 1 + r.Intn(3)
	var batch []MsgSpec
	for m := 0; m < nm; m++ {
		nr := 1 + r.Intn(3)
		var to []string
		for k := 0; k < nr; k++ {
			if r.Chance(1, 4) {
				// a local part that has to be quoted on the wire; the error speaks of the
				// address as the message has it
				to = append(to, fmt.Sprintf(`"r%d%sm%d"@dest.example`, k, sim.Pick(r, []string{" q-", "(c)-", " ", ";"}), m))
			} else {
				to = append(to, fmt.Sprintf("r%d-m%d@dest.example", k, m))
			}
		}
		batch = append(batch, SimpleMsg(fmt.Sprintf("m%d", m), to...))
	}
	sc := &SendScenario{Op: "send", Batches: [][]MsgSpec{batch}, Sched: sim.Derive(seed, 20, uint64(i), 7),
		Client: ClientCfg{TLSPolicy: "none"}}
	if r.Chance(1, 4) {
		sc.Op = "dialandsend"
		if r.Chance(1, 3) {
			// the clean-up after the send fails as well: the verdicts on the messages must
			// still be what is reported
			sc.Server.Rules = append(sc.Server.Rules, refsmtpd.Rule{Verb: "QUIT", Nth: 1, Action: sim.Pick(r, []refsmtpd.Action{{Code: 421, Text: "closing"}, {Code: 500, Text: "what?"}, {Kind: "drop"}})})
		}
	}
	if sc.Op == "send" && r.Chance(1, 6) {
		// the caller's own smtp.Client, handed over before anything was said on it; without the
		// NOOP probe the first command of the send is what makes the client introduce itself
		sc.Op = "sendwith"
		sc.Client.NoNoop = r.Chance(2, 3)
	}
	caps := []string{"8BITMIME"}
	esc := false
	target := r.Intn(nm)
	nth := func(verb string, msg, rcpt int) int {
		switch verb {
		case "RCPT":
			n := 0
			for k := 0; k < msg; k++ {
				n += len(batch[k].To)
			}
			return n + rcpt + 1
		}
		return msg + 1
	}
	if i < nEnum {
		j := i
		code := 400 + j%200
		j /= 200
		form := c20Forms[j%len(c20Forms)]
		j /= len(c20Forms)
		pos := c20Pos[j%len(c20Pos)]
		j /= len(c20Pos)
		esc = j%2 == 1
		rc := r.Intn(len(batch[target].To))
		sc.Label = fmt.Sprintf("%d/%s/%s/esc=%v", code, form, pos, esc)
		sc.Server.Rules = append(sc.Server.Rules, refsmtpd.Rule{Verb: pos, Nth: nth(pos, target, rc), Action: c20Action(code, form)})
	} else {
		// several rejected recipients with different codes, possibly in several messages
		esc = r.Chance(1, 2)
		sc.Label = "multi-rcpt"
		if r.Chance(1, 3) && nm >= 2 {
			// a rejection whose abandoning RSET is refused or lost as well: the connection is
			// given up, and every message still in the batch is a failed message too
			tgt := r.Intn(nm - 1)
			pos := sim.Pick(r, []string{"MAIL", "RCPT", "DATA"})
			sc.Label = "reject+rset/" + pos
			sc.Server.Rules = append(sc.Server.Rules, refsmtpd.Rule{Verb: pos, Nth: nth(pos, tgt, 0), Action: c20Action(400+r.Intn(200), sim.Pick(r, c20Forms))},
				refsmtpd.Rule{Verb: "RSET", Nth: tgt + 1, Action: sim.Pick(r, []refsmtpd.Action{c20Action(451, "enh"), c20Action(554, "plain"), {Kind: "drop"}})})
			if esc {
				caps = append(caps, c20EscSpelling(i))
			}
			sc.Server.Caps = caps
			return sc, true
		}
		for m := 0; m < nm; m++ {
			if m != target && !r.Chance(1, 3) {
				continue
			}
			for k := range batch[m].To {
				if r.Chance(1, 6) {
					// accepted, with one of the other 25z codes
					sc.Server.Rules = append(sc.Server.Rules, refsmtpd.Rule{Verb: "RCPT", Nth: nth("RCPT", m, k), Action: refsmtpd.Action{Code: sim.Pick(r, []int{251, 252}), Text: "user not local; will forward"}})
					continue
				}
				if r.Chance(1, 2) {
					code := 400 + r.Intn(200)
					sc.Server.Rules = append(sc.Server.Rules, refsmtpd.Rule{Verb: "RCPT", Nth: nth("RCPT", m, k), Action: c20Action(code, sim.Pick(r, c20Forms))})
				}
			}
		}
		// the nth of later messages shifts when an earlier message is abandoned after RCPT
		// failures — it does not: every RCPT of a message is still sent (go-mail sends all
		// recipients before giving up), so the positions computed above stay exact.
	}
	if esc {
		caps = append(caps, c20EscSpelling(i))
	}
	sc.Server.Caps = caps
	sc.Server.MultiLine = i >= nEnum && r.Chance(1, 4)
	if i >= nEnum && r.Chance(1, 2) {
		// the session is upgraded with STARTTLS and the second EHLO reply differs from the first:
		// what counts is the reply in force when the command is refused
		sc.Client.TLSPolicy = "opportunistic"
		sc.Server.TLS = refsmtpd.TLSCfg{Cert: "valid"}
		sc.Server.Caps = append(sc.Server.Caps, "STARTTLS")
		sc.Server.UseCapsTLS = true
		sc.Server.CapsTLS = []string{"8BITMIME"}
		if !esc || r.Chance(1, 3) {
			sc.Server.CapsTLS = append(sc.Server.CapsTLS, "ENHANCEDSTATUSCODES")
		}
		sc.Label += "/tls-caps-differ"
	}
	return sc, true
}

// msgSegment is what the server did for one message.
type msgSegment struct {
	token  string
	mail   *refsmtpd.Event
	rcpts  []rcptVerdict
	data   *refsmtpd.Event
	eod    *refsmtpd.Event
	after  []refsmtpd.Event // replies to NOOP/RSET after the message's last transaction command
	strict bool             // the server answered something with its own strict 50x (dialogue went wrong)
}

type rcptVerdict struct {
	addr  string
	reply refsmtpd.Event
}

// segments splits the history of one connection into per-message segments.
func segments(h *refsmtpd.History) (map[string]*msgSegment, []string) {
	segs := map[string]*msgSegment{}
	var order []string
	var cur *msgSegment
	cmdBySeq := map[int]refsmtpd.Event{}
	for _, e := range h.Events {
		if e.Kind == "cmd" {
			cmdBySeq[e.Seq] = e
		}
	}
	for _, e := range h.Events {
		switch e.Kind {
		case "cmd":
			if e.Verb == "MAIL" && e.Cmd != nil && e.Cmd.Path != nil {
				tok := strings.TrimPrefix(e.Cmd.Path.Local, "sender-")
				cur = &msgSegment{token: tok}
				if _, dup := segs[tok]; !dup {
					order = append(order, tok)
				}
				segs[tok] = cur
			}
		case "reply":
			if cur == nil {
				continue
			}
			ev := e
			if e.Nth == 0 && e.Code >= 500 && e.Verb != "" {
				cur.strict = true
			}
			switch e.Verb {
			case "MAIL":
				cur.mail = &ev
			case "RCPT":
				addr := ""
				if c, ok := cmdBySeq[e.ReplyTo]; ok && c.Cmd != nil && c.Cmd.Path != nil {
					addr = c.Cmd.Path.Mailbox()
				}
				cur.rcpts = append(cur.rcpts, rcptVerdict{addr: addr, reply: ev})
			case "DATA":
				cur.data = &ev
			case "EOD":
				cur.eod = &ev
			case "RSET", "NOOP":
				cur.after = append(cur.after, ev)
			}
		}
	}
	return segs, order
}

func parseRcpts(errText string) []string {
	const k = ", affected recipient(s): "
	i := strings.Index(errText, k)
	if i < 0 {
		return nil
	}
	s := errText[i+len(k):]
	if j := strings.Index(s, ", affected message ID:"); j >= 0 {
		s = s[:j]
	}
	return strings.Split(s, ", ")
}

func (p *c20) Exec(t *testing.T, scAny any) Outcome {
	sc := scAny.(*SendScenario)
	var out Outcome
	run := ExecSend(t, sc, nil)
	run.fill(&out)
	if out.Infra != "" {
		return out
	}
	pos := sc.Label
	if i := strings.Index(pos, "/"); i >= 0 {
		f := strings.Split(pos, "/")
		if len(f) >= 3 {
			pos = f[1] + "/" + f[2]
		}
	}
	if len(run.SendCalls) == 0 || !run.SendCalls[0].Returned || len(run.States) == 0 {
		out.stat("not-judged.send-did-not-run", 1)
		return out
	}
	call := run.SendCalls[0]
	if call.Panic != nil {
		out.violate("C20:panic", "%s panicked: %v\n%s", call.Name, call.Panic, call.PanicStack)
		return out
	}
	escAdvertised := false
	for _, c := range sc.Server.Caps {
		if strings.EqualFold(c, "ENHANCEDSTATUSCODES") {
			escAdvertised = true
		}
	}
	segs, _ := segments(run.Env.Srv.H)
	illegal := false
	for _, s := range segs {
		if s.strict {
			illegal = true
		}
	}
	if len(run.Env.Srv.H.Obs()) > 0 {
		illegal = true
	}
	if illegal {
		// the dialogue itself went wrong (C04's subject); messages after the failed one are not
		// judged, the failed one still is
		out.stat("probe.dialogue-illegal-unaffected-not-judged", 1)
	}
	failedMsgs := 0
	keyParts := []string{sc.Label, fmt.Sprint(len(sc.Batches[0]))}
	// may the client have given the connection up before a later message's turn? Yes when the
	// script takes the connection or a reply away, and when the RSET that abandons a refused
	// message is refused as well (the transaction may still be open: §8.3, C04). A refused RSET
	// after an ACCEPTED message leaves nothing open; what follows is unaffected.
	connMayBeGone := false
	for _, ru := range sc.Server.Rules {
		if ru.Action.Kind != "" && ru.Action.Kind != "reply" {
			connMayBeGone = true
		}
	}
	for mi, b := range run.Built[0] {
		st := run.States[0][mi]
		seg := segs[b.Spec.Token]
		want := struct {
			reason mail.SendErrReason
			fail   bool
			reply  *refsmtpd.Event
			rcpts  []string
			step   string
		}{}
		if seg != nil {
			switch {
			case seg.mail != nil && seg.mail.Code >= 400:
				want.fail, want.reason, want.reply, want.step = true, mail.ErrSMTPMailFrom, seg.mail, "MAIL"
			default:
				for i := range seg.rcpts {
					if seg.rcpts[i].reply.Code >= 400 {
						want.fail, want.reason, want.step = true, mail.ErrSMTPRcptTo, "RCPT"
						r := seg.rcpts[i].reply
						want.reply = &r
						want.rcpts = append(want.rcpts, seg.rcpts[i].addr)
					}
				}
				if !want.fail && seg.data != nil && seg.data.Code >= 400 {
					want.fail, want.reason, want.reply, want.step = true, mail.ErrSMTPData, seg.data, "DATA"
				}
				if !want.fail && seg.eod != nil && seg.eod.Code >= 400 {
					want.fail, want.reason, want.reply, want.step = true, mail.ErrSMTPDataClose, seg.eod, "EOD"
				}
				if !want.fail && seg.eod != nil {
					for i := range seg.after {
						if seg.after[i].Code >= 400 && seg.after[i].Verb == "RSET" {
							r := seg.after[i]
							want.fail, want.reason, want.reply, want.step = true, mail.ErrSMTPReset, &r, "RSET"
							break
						}
					}
				}
			}
		}
		if seg != nil && seg.strict && !want.fail {
			continue // victim of an illegal dialogue, C04's subject
		}
		if seg == nil && illegal {
			continue
		}
		if seg == nil {
			// the message never reached MAIL: the connection was gone by the time its turn came.
			// It was not delivered, so it is a failed message and has to say so.
			failedMsgs++
			if !connMayBeGone && !illegal {
				out.violate("C20:unaffected-never-sent", "message %s was never sent (error %q) although nothing had happened to the connection: every reply before its turn was well-formed and no refused message was left half-abandoned", b.Spec.Token, st.ErrText)
			}
			if st.Delivered {
				out.violate("C20:unsent-but-delivered", "message %s never reached the server, yet IsDelivered() is true", b.Spec.Token)
			}
			if st.SE == nil {
				out.violate("C20:unsent-without-error", "message %s of the batch was never sent (the connection had been given up after an earlier failure) but carries no SendError", b.Spec.Token)
			}
			keyParts = append(keyParts, "unsent")
			continue
		}
		if !want.fail {
			if st.HasErr || st.SE != nil {
				if !illegal {
					out.violate("C20:unaffected-has-error", "message %s was not refused at any step, yet it carries the error %q", b.Spec.Token, st.ErrText)
				}
			}
			continue
		}
		failedMsgs++
		site := want.step
		r := want.reply
		if want.step != "RSET" {
			for i := range seg.after {
				if seg.after[i].Verb == "RSET" && seg.after[i].Code >= 400 {
					connMayBeGone = true
				}
			}
		}
		if st.SE == nil {
			out.violate("C20:no-senderror:"+site, "message %s was refused at %s with %d, but Msg.SendError() is %q (no *SendError)", b.Spec.Token, site, r.Code, st.ErrText)
			continue
		}
		se := st.SE
		if se.Reason != want.reason {
			out.violate("C20:reason:"+site, "message %s refused at %s (%d %s): Reason is %q, want %q", b.Spec.Token, site, r.Code, r.Text, se.Reason, want.reason)
		}
		if se.ErrorCode() != r.Code {
			out.violate("C20:code:"+site, "message %s refused at %s with %d: ErrorCode() is %d", b.Spec.Token, site, r.Code, se.ErrorCode())
		}
		if se.IsTemp() != (r.Code/100 == 4) {
			out.violate("C20:temp:"+site, "message %s refused at %s with %d: IsTemp() is %v", b.Spec.Token, site, r.Code, se.IsTemp())
		}
		// what counts is the EHLO reply in force when the refused command was sent
		escAdvertised := escAdvertised
		for i := len(run.Env.Srv.H.Events) - 1; i >= 0; i-- {
			e := run.Env.Srv.H.Events[i]
			if e.Seq < r.Seq && e.Kind == "cmd" && e.Conn == r.Conn && e.Verb != "" && e.Verb != "AUTHRESP" && e.Verb != "*" {
				escAdvertised = strings.Contains(","+e.Ext+",", ",ENHANCEDSTATUSCODES,")
				break
			}
		}
		wantEnh := ""
		if escAdvertised && r.Enh != "" {
			wantEnh = r.Enh
		}
		if got := se.EnhancedStatusCode(); got != wantEnh {
			form := "reply-without-enhanced-code"
			if r.Enh != "" {
				form = "reply-with-enhanced-code"
			}
			out.violate(fmt.Sprintf("C20:enh:%s:%s:advertised=%v", site, form, escAdvertised),
				"message %s refused at %s with %q (ENHANCEDSTATUSCODES advertised: %v): EnhancedStatusCode() is %q, want %q",
				b.Spec.Token, site, fmt.Sprintf("%d %s %s", r.Code, r.Enh, r.Text), escAdvertised, got, wantEnh)
		}
		if se.Msg() != b.Msg {
			out.violate("C20:msg-pointer:"+site, "SendError.Msg() of message %s does not point to that message", b.Spec.Token)
		}
		if want.step == "RCPT" {
			got := parseRcpts(se.Error())
			a, bb := append([]string(nil), got...), append([]string(nil), want.rcpts...)
			sort.Strings(a)
			sort.Strings(bb)
			if strings.Join(a, ",") != strings.Join(bb, ",") {
				out.violate("C20:rcpt-list", "message %s: rejected recipients %v, SendError lists %v", b.Spec.Token, want.rcpts, got)
			}
		}
		if !r.IsZeroToken() && !strings.Contains(se.Error(), r.Token) {
			out.violate("C20:wrong-reply:"+site, "message %s refused at %s by reply %s, but its error text %q does not carry that reply", b.Spec.Token, site, r.Token, se.Error())
		}
		keyParts = append(keyParts, fmt.Sprintf("%s:%d", site, r.Code))
	}
	// the joined error: one *SendError per failed message
	if !illegal {
		parts := joined(call.Err)
		if sc.Op == "dialandsend" && call.Err != nil {
			parts = joined(errors.Unwrap(call.Err))
		}
		n := 0
		for _, e := range parts {
			var se *mail.SendError
			if errors.As(e, &se) {
				n++
			}
		}
		if n != failedMsgs {
			out.violate("C20:join-count", "%d messages failed, the returned error has %d SendError entries: %v", failedMsgs, n, call.Err)
		}
		quitScripted := false
		for _, rl := range sc.Server.Rules {
			if rl.Verb == "QUIT" {
				quitScripted = true
			}
		}
		if failedMsgs == 0 && call.Err != nil && quitScripted && n == 0 {
			// every message was accepted and the scripted failure of QUIT is what is reported
			out.stat("probe.only-the-quit-failed", 1)
		} else if failedMsgs == 0 && call.Err != nil {
			out.violate("C20:error-without-failure", "no message was refused but %s returned %v", call.Name, call.Err)
		}
	}
	out.Key = strings.Join(keyParts, "|")
	out.Nontrivial = failedMsgs > 0
	return out
}

func (p *c20) Shrink(scAny any) []any {
	sc := scAny.(*SendScenario)
	var out []any
	if len(sc.Server.Rules) > 1 {
		for i := range sc.Server.Rules {
			c := *sc
			c.Server.Rules = append(append([]refsmtpd.Rule(nil), sc.Server.Rules[:i]...), sc.Server.Rules[i+1:]...)
			out = append(out, &c)
		}
	}
	if sc.Op == "dialandsend" {
		c := *sc
		c.Op = "send"
		out = append(out, &c)
	}
	return out
}

func (p *c20) Info() PropInfo {
	return PropInfo{
		Rule: "enumeration: reply code 400..599 (all 200) x text form {plain, enhanced code at start, enhanced-code-like triple later in the text (an IP address), multi-line, enhanced code and nothing else, multi-line whose first line is the bare enhanced code, enhanced code whose class contradicts the reply code (550 4.x.x, 451 5.x.x)} x position {MAIL, a RCPT, DATA, end-of-data, RSET} x ENHANCEDSTATUSCODES advertised (two sevenths of the runs not in upper case) or not, each in a batch of 1..3 messages x 1..3 recipients (a quarter with local parts that need quoting on the wire) drawn from the seed, DialAndSend runs partly with a refused or lost QUIT; plus sampled scenarios with several rejected recipients carrying different codes; non-trivial = at least one message was refused; distinct = distinct (label, batch size, failing steps and codes)",
		Assumptions: []string{"NOOP is always accepted (not a position of the property)", "the rejected-recipient list is read from SendError.Error() because the type has no accessor for it",
			"messages that follow a message after which the dialogue became illegal (C04's subject) are not judged for 'unaffected'"},
		Real:        []string{"go-mail Client.Send/DialAndSend, SendError, smtp.Client", "net/textproto"},
		Stubbed:     []string{"TCP (sim.Pipe)", "SMTP server (refsmtpd)", "clock"},
		Exhaustive:  func(string) bool { return false },
		QuickBudget: 90 * time.Second, ThoroughBudget: 20 * time.Minute,
	}
}
