package props

import (
	"bytes"
	"fmt"
	"strings"
	"testing"
	"time"

	"github.com/wneessen/go-mail/smtp"

	"verif/sim/refsmtpd"
	"verif/sim/sim"
)

// C05, second workload: the smtp package used directly. A sequence of smtp.Client calls with
// generated arguments, each argument carrying a unique marker. Arguments that contain CR or LF
// (or, for Hello, blanks) must be refused — and a refused argument must leave no trace: its
// marker never reaches the wire, neither in that call nor in any later one (state that a failed
// call left behind is as much a smuggling channel as an unchecked argument).

type C05Call struct {
	Op  string `json:"op"` // hello | mail | rcpt | verify | noop | reset | data | quit
	Arg string `json:"arg,omitempty"`
}

type C05Direct struct {
	Calls  []C05Call       `json:"calls"`
	Server refsmtpd.Config `json:"server"`
	Sched  uint64          `json:"sched"`
}

func genDirect(r *sim.Rand, i int, seed uint64) *C05Direct {
	sc := &C05Direct{Sched: sim.Derive(seed, 5, uint64(i), 2)}
	sc.Server.Caps = []string{"8BITMIME", "SMTPUTF8", "DSN"}
	n := 0
	mark := func() string { n++; return fmt.Sprintf("MK%dx%dKM", i%1000, n) }
	nasty := func(kind string) string {
		m := mark()
		switch kind {
		case "hello":
			return sim.Pick(r, []string{"host-" + m + ".example", "host-" + m + "\r\nMAIL FROM:<smug-" + m + "@evil.example>", "host-" + m + "\nNOOP", "host " + m + " extra", "host-" + m + "\r", "-" + m})
		default:
			return sim.Pick(r, []string{"user-" + m + "@dest.example", "user-" + m + "@dest.example", `"quoted ` + m + `"@dest.example`, "user-" + m + "@dest.example\r\nRSET", "user-" + m + "@dest.example>\r\nRCPT TO:<smug-" + m + "@evil.example", "a b-" + m + "@dest.example", "user-" + m + "@dest.example> SIZE=1 <x", "user-" + m + "\n@dest.example",
				// several quoted strings: only the first one is the local part, what follows it must be "@domain"
				`"x-` + m + `"@evil.example> ORCPT=rfc822;<"y"@dest.example`, `"a-` + m + `"@x.example> SIZE=1 <"b"@dest.example`,
				`"u-` + m + `" "v"@dest.example`, `"q\"-` + m + `"@dest.example`, `"p-` + m + `"@dest.example> RET=FULL ENVID="e"@x`,
				`"back\\-` + m + `"@dest.example`, `"r-` + m + `"x"y"@dest.example`})
		}
	}
	nops := 3 + r.Intn(8)
	for k := 0; k < nops; k++ {
		op := sim.Pick(r, []string{"hello", "hello", "mail", "rcpt", "rcpt", "verify", "noop", "reset", "data", "mail"})
		c := C05Call{Op: op}
		switch op {
		case "hello":
			c.Arg = nasty("hello")
		case "mail", "rcpt", "verify":
			c.Arg = nasty("addr")
		}
		sc.Calls = append(sc.Calls, c)
	}
	sc.Calls = append(sc.Calls, C05Call{Op: "quit"})
	return sc
}

func (p *c05) execDirect(t *testing.T, sc *C05Direct) Outcome {
	var out Outcome
	var env *NetEnv
	type res struct {
		call C05Call
		err  error
	}
	var results []res
	var panicked any
	rs := RunSim(t, sc.Sched, sim.Policy{Kind: "random"}, 0, time.Hour, func(k *sim.Kernel) (func(), func()) {
		env = &NetEnv{K: k, Srv: refsmtpd.New(k, sc.Server, TLSMat)}
		return func() {
			defer func() {
				if r := recover(); r != nil {
					panicked = r
				}
			}()
			conn, _ := env.Dial(nil, "tcp", "mx.sim.example:25")
			c, err := smtp.NewClient(conn, "mx.sim.example")
			if err != nil {
				return
			}
			for _, call := range sc.Calls {
				var err error
				switch call.Op {
				case "hello":
					err = c.Hello(call.Arg)
				case "mail":
					err = c.Mail(call.Arg)
				case "rcpt":
					err = c.Rcpt(call.Arg)
				case "verify":
					err = c.Verify(call.Arg)
				case "noop":
					err = c.Noop()
				case "reset":
					err = c.Reset()
				case "data":
					w, derr := c.Data()
					err = derr
					if derr == nil {
						_, _ = w.Write([]byte("Subject: direct\r\n\r\nbody\r\n"))
						err = w.Close()
					}
				case "quit":
					err = c.Quit()
				}
				results = append(results, res{call, err})
			}
			_ = c.Close()
		}, env.Freeze
	})
	out.SimNs, out.Steps, out.Digest = rs.VirtualNs, rs.Steps, rs.Digest
	if rs.BubbleErr != "" {
		out.Infra = "bubble: " + rs.BubbleErr
		return out
	}
	if panicked != nil {
		out.violate("C05:panic:smtp-direct", "an smtp.Client call panicked: %v", panicked)
		return out
	}
	if len(env.Pipes) == 0 {
		return out
	}
	wire := env.Pipes[0].C2S()
	markOf := func(s string) string {
		i := strings.Index(s, "MK")
		j := strings.Index(s, "KM")
		if i < 0 || j < i {
			return ""
		}
		return s[i : j+2]
	}
	for _, r := range results {
		m := markOf(r.call.Arg)
		if m == "" {
			continue
		}
		mustRefuse := strings.ContainsAny(r.call.Arg, "\r\n") || (r.call.Op == "hello" && strings.ContainsAny(r.call.Arg, " \t"))
		onWire := bytes.Contains(wire, []byte(m))
		if mustRefuse {
			out.stat("probe.argument-that-must-be-refused", 1)
			if r.err == nil {
				out.violate("C05:direct:accepted:"+r.call.Op, "smtp.Client.%s accepted the argument %q", r.call.Op, r.call.Arg)
			}
			if onWire {
				kind := "same-call"
				if r.err != nil {
					kind = "after-refusal"
				}
				out.violate("C05:direct:refused-argument-on-wire:"+r.call.Op+":"+kind, "the argument %q of smtp.Client.%s (error: %v) reached the wire: %q", r.call.Arg, r.call.Op, r.err, clipStr(string(wire), 400))
			}
		}
	}
	for _, e := range env.Srv.H.Events {
		if e.Kind == "obs" && (e.Obs == "bare-lf" || e.Obs == "bare-cr" || strings.HasPrefix(e.Obs, "unknown-") || strings.HasPrefix(e.Obs, "duplicate-param")) {
			out.violate("C05:direct:malformed-line:"+strings.SplitN(e.Obs, ":", 2)[0], "the server received %q: %s", e.Line, e.Obs)
		}
		if e.Kind == "cmd" && e.Cmd != nil && (e.Verb == "MAIL" || e.Verb == "RCPT") {
			for _, pr := range e.Cmd.Params {
				if !(pr.Key == "BODY" || pr.Key == "SMTPUTF8") {
					out.violate("C05:direct:unrequested-parameter:"+e.Verb, "%s carries the parameter %s=%s nobody asked for: %q", e.Verb, pr.Key, pr.Val, e.Line)
				}
			}
		}
	}
	var sig []string
	for _, r := range results {
		sig = append(sig, fmt.Sprintf("%s:%v", r.call.Op, r.err == nil))
	}
	out.Key = "direct|" + strings.Join(sig, ",") + fmt.Sprint(sc.Sched)
	out.Nontrivial = len(results) > 0
	out.stat("runs.smtp-direct", 1)
	return out
}
