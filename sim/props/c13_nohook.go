//go:build !simhook

package props

import "verif/sim/sim"

// Without the instrumented scratch copy there are no lock hooks; C13 refuses to run.
func installLockHooks(k *sim.Kernel) bool { return false }
func removeLockHooks()                    {}
