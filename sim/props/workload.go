package props

import (
	"fmt"
	"strings"

	"verif/sim/sim"
)

// Workload generators: message shapes, contents, chunkings. Everything is drawn from the PRNG
// handed in; nothing here reads a clock or global state.

// ShapeOpts bounds the generated shapes.
type ShapeOpts struct {
	MaxAlt, MaxEmbed, MaxAttach int
	MaxContent                  int      // upper bound for a content length
	CRLFOnly                    bool     // text content uses CRLF line breaks only
	Encs                        []string // message/part encodings to draw from
	FileEncs                    []string // file encodings to draw from
	Sources                     []string // file sources to draw from
	AllowSMIME                  bool
	StableOnly                  bool // avoid shapes whose rendering is known not to be repeatable (C11's subject)
}

// DefaultShape is the swarm default.
var DefaultShape = ShapeOpts{MaxAlt: 2, MaxEmbed: 2, MaxAttach: 2, MaxContent: 400, CRLFOnly: true,
	Encs: []string{"quoted-printable", "base64", "8bit"}, FileEncs: []string{"", "base64"}, Sources: []string{"writer", "readseeker", "fs", "reader", "file", "tmpl", "htmpl"}}

var words = []string{"alpha", "beta", "gamma", "delta", "Ünïcödé", "ζήτα", "=equals=", ".dot", "..dots", "From ", "--boundary", "line", "x", "a-very-long-word-without-any-blank-in-it-that-exceeds-the-usual-line-length-limit-of-76-characters-by-far"}

// GenText produces text content of about n bytes with CRLF (or mixed) line breaks, including
// lines starting with dots and boundary-like lines.
func GenText(r *sim.Rand, n int, crlfOnly bool) []byte {
	var b strings.Builder
	for b.Len() < n {
		switch r.Intn(12) {
		case 0:
			b.WriteString(".")
		case 1:
			b.WriteString("..leading dots")
		case 2:
			b.WriteString("--" + strings.Repeat("=", r.Intn(5)))
		default:
			k := 1 + r.Intn(8)
			for i := 0; i < k; i++ {
				if i > 0 {
					b.WriteByte(' ')
				}
				b.WriteString(sim.Pick(r, words))
			}
		}
		if r.Chance(1, 10) {
			b.WriteString(" ") // trailing blank
		}
		if crlfOnly || r.Chance(2, 3) {
			b.WriteString("\r\n")
		} else {
			b.WriteString("\n")
		}
	}
	s := b.String()
	if len(s) > n && n > 2 && !crlfOnly {
		s = s[:n]
	}
	return []byte(s)
}

// GenBinary produces arbitrary bytes.
func GenBinary(r *sim.Rand, n int) []byte { return r.Bytes(n) }

// GenChunks draws a chunking.
func GenChunks(r *sim.Rand) []int {
	switch r.Intn(8) {
	case 0:
		return nil
	case 1:
		return []int{1}
	case 2:
		return []int{3}
	case 3:
		return []int{57}
	case 4:
		return []int{76}
	case 5:
		return []int{sim.Pick(r, []int{2, 5, 7, 11, 13, 17, 19, 23, 29, 31, 55, 56, 58, 75, 77})}
	default:
		n := 1 + r.Intn(5)
		c := make([]int, n)
		for i := range c {
			c[i] = 1 + r.Intn(100)
		}
		return c
	}
}

// lengthAround draws a length near the wrapping points.
func lengthAround(r *sim.Rand, max int) int {
	switch r.Intn(5) {
	case 0:
		return r.Intn(4)
	case 1:
		base := sim.Pick(r, []int{3, 57, 76, 114, 152, 171, 228})
		return base*(1+r.Intn(3)) + r.Intn(7) - 3
	default:
		if max < 1 {
			max = 1
		}
		return r.Intn(max)
	}
}

// GenMsg draws a message shape. token makes every piece of content attributable.
func GenMsg(r *sim.Rand, token string, o ShapeOpts) MsgSpec {
	if len(o.Encs) == 0 {
		o.Encs = DefaultShape.Encs
	}
	if len(o.FileEncs) == 0 {
		o.FileEncs = DefaultShape.FileEncs
	}
	if len(o.Sources) == 0 {
		o.Sources = DefaultShape.Sources
	}
	// domains are written the way the caller spelled them, upper-case letters included
	dom := "dest.example"
	if r.Chance(1, 6) {
		dom = "Dest.EXAMPLE"
	}
	m := MsgSpec{Token: token, From: "sender-" + token + "@origin.example", Subject: "subject " + token,
		To: []string{"to-" + token + "@" + dom}}
	if r.Chance(1, 3) {
		m.Cc = []string{"cc-" + token + "@" + dom}
	}
	if r.Chance(1, 3) {
		m.Bcc = []string{"bcc-" + token + "@hidden.example"}
	}
	m.Enc = sim.Pick(r, o.Encs)
	content := func(kind string, idx int, text bool) ContentSpec {
		n := lengthAround(r, o.MaxContent)
		if n < 0 {
			n = 0
		}
		var data []byte
		head := fmt.Sprintf("[%s %s %d]\r\n", token, kind, idx)
		if text && r.Chance(1, 6) {
			// the very first byte of the content is a dot (a line of its own, or the start of
			// one): it follows the header section's CRLF in another write
			data = append([]byte(sim.Pick(r, []string{".\r\n", ".dot first\r\n", "..\r\n"})), GenText(r, n, o.CRLFOnly)...)
			data = append(data, head...)
		} else if text {
			data = append([]byte(head), GenText(r, n, o.CRLFOnly)...)
		} else {
			data = append([]byte(head), GenBinary(r, n)...)
		}
		return ContentSpec{Data: data, Chunks: GenChunks(r)}
	}
	nparts := 1 + r.Intn(o.MaxAlt+1)
	if r.Chance(1, 12) {
		// a message without body part renders its sole file at top level
		nparts = 0
	}
	for i := 0; i < nparts; i++ {
		p := PartSpec{Type: "text/plain", Content: content("part", i, true)}
		if i%2 == 1 {
			p.Type = "text/html"
		}
		if r.Chance(1, 3) {
			p.Enc = sim.Pick(r, o.Encs)
		}
		if r.Chance(1, 6) {
			p.Desc = "description of part " + token
		}
		if r.Chance(1, 3) {
			p.Kind = "string"
			if len(p.Content.Data)%3 == 2 {
				// the body comes out of a template that is executed when the part is set
				p.Kind = "tmpl"
			}
		}
		m.Parts = append(m.Parts, p)
	}
	file := func(kind string, i int) FileSpec {
		f := FileSpec{Name: fmt.Sprintf("%s-%s-%d.bin", kind, token, i), Content: content(kind, i, r.Chance(1, 2))}
		f.Enc = sim.Pick(r, o.FileEncs)
		f.Source = sim.Pick(r, o.Sources)
		if r.Chance(1, 5) {
			f.Desc = "file description " + token
		}
		if r.Chance(1, 5) {
			f.CType = "application/x-sim"
		}
		if f.Enc == "8bit" || f.Enc == "7bit" {
			// raw content must be line-structured to be a legal body at all
			f.Content.Data = append([]byte(fmt.Sprintf("[%s %s %d]\r\n", token, kind, i)), GenText(r, lengthAround(r, o.MaxContent), true)...)
		}
		return f
	}
	for i, n := 0, r.Intn(o.MaxEmbed+1); i < n; i++ {
		m.Embeds = append(m.Embeds, file("embed", i))
	}
	for i, n := 0, r.Intn(o.MaxAttach+1); i < n; i++ {
		m.Attach = append(m.Attach, file("attach", i))
	}
	if o.AllowSMIME && r.Chance(1, 6) {
		m.SMIME = sim.Pick(r, []string{"rsa", "ecdsa"})
	}
	return m
}

// Swarm varies the client options that a property does not care about, so that correctness never
// silently depends on one configuration: debug logging (exercises the logging paths of every
// command), WithoutNoop, DSN options (only sent if the server offers DSN), a custom HELO name.
func Swarm(r *sim.Rand, c *ClientCfg, serverCaps *[]string) {
	if r.Chance(1, 4) {
		c.Debug = true
	}
	if r.Chance(1, 5) {
		c.NoNoop = true
	}
	if r.Chance(1, 4) {
		c.DSN = true
		if r.Chance(1, 2) {
			c.DSNRet = Pick2(r, "FULL", "HDRS")
		}
		if serverCaps != nil && r.Chance(2, 3) {
			has := false
			for _, x := range *serverCaps {
				if x == "DSN" {
					has = true
				}
			}
			if !has {
				*serverCaps = append(*serverCaps, "DSN")
			}
		}
	}
	if r.Chance(1, 5) {
		c.HELO = Pick2(r, "client.sim.example", "[192.0.2.7]")
	}
}

// Pick2 picks one of two strings.
func Pick2(r *sim.Rand, a, b string) string {
	if r.Chance(1, 2) {
		return a
	}
	return b
}

// statShape counts which content sources a scenario's message used (reach probes).
func (o *Outcome) statShape(s MsgSpec) {
	for _, p := range s.Parts {
		k := p.Kind
		if k == "" {
			k = "writer"
		}
		if k == "tmpl" {
			k = "tmpl-" + strings.TrimPrefix(p.Type, "text/")
		}
		o.stat("probe.part-kind."+k, 1)
	}
	for _, f := range append(append([]FileSpec(nil), s.Embeds...), s.Attach...) {
		k := f.Source
		if k == "" {
			k = "writer"
		}
		o.stat("probe.file-source."+k, 1)
	}
}

// producersOf lists (kind, index) of all producer-backed contents in spec order (parts, embeds,
// attachments), matching Built.Producers.
func (s MsgSpec) producerCount() int { return len(s.Parts) + len(s.Embeds) + len(s.Attach) }

// contentAt returns a pointer to the i-th content spec in producer order.
func (s *MsgSpec) contentAt(i int) *ContentSpec {
	if i < len(s.Parts) {
		return &s.Parts[i].Content
	}
	i -= len(s.Parts)
	if i < len(s.Embeds) {
		return &s.Embeds[i].Content
	}
	i -= len(s.Embeds)
	return &s.Attach[i].Content
}

// canFail reports whether the i-th producer's failure behaviour can take effect at render time.
func (s *MsgSpec) canFail(i int) bool {
	if i < len(s.Parts) {
		return s.Parts[i].Kind != "string" && s.Parts[i].Kind != "tmpl"
	}
	i -= len(s.Parts)
	if i < len(s.Embeds) {
		return s.Embeds[i].Source != "reader" && s.Embeds[i].Source != "file" && s.Embeds[i].Source != "tmpl" && s.Embeds[i].Source != "htmpl"
	}
	i -= len(s.Embeds)
	return s.Attach[i].Source != "reader" && s.Attach[i].Source != "file" && s.Attach[i].Source != "tmpl" && s.Attach[i].Source != "htmpl"
}

// canFailOpen: the source of producer i is opened again at render time (and can have vanished).
func (s *MsgSpec) canFailOpen(i int) bool {
	if i < len(s.Parts) {
		return false
	}
	i -= len(s.Parts)
	if i < len(s.Embeds) {
		return s.Embeds[i].Source == "fs" || s.Embeds[i].Source == "file"
	}
	i -= len(s.Embeds)
	return s.Attach[i].Source == "fs" || s.Attach[i].Source == "file"
}

// canFailClose: the source of producer i is an fs.FS file, which go-mail closes itself.
func (s *MsgSpec) canFailClose(i int) bool {
	if i < len(s.Parts) {
		return false
	}
	i -= len(s.Parts)
	if i < len(s.Embeds) {
		return s.Embeds[i].Source == "fs"
	}
	i -= len(s.Embeds)
	return s.Attach[i].Source == "fs"
}

// canFailIsDir: the source of producer i is a path in the file system.
func (s *MsgSpec) canFailIsDir(i int) bool {
	if i < len(s.Parts) {
		return false
	}
	i -= len(s.Parts)
	if i < len(s.Embeds) {
		return s.Embeds[i].Source == "file"
	}
	i -= len(s.Embeds)
	return s.Attach[i].Source == "file"
}

// canFailSeek: the source of producer i is a ReadSeeker that go-mail rewinds.
func (s *MsgSpec) canFailSeek(i int) bool {
	if i < len(s.Parts) {
		return false
	}
	i -= len(s.Parts)
	if i < len(s.Embeds) {
		return s.Embeds[i].Source == "readseeker"
	}
	i -= len(s.Embeds)
	return s.Attach[i].Source == "readseeker"
}

// clone makes a deep copy of the spec (slices of parts/files).
func (s MsgSpec) clone() MsgSpec {
	c := s
	c.Parts = append([]PartSpec(nil), s.Parts...)
	c.Embeds = append([]FileSpec(nil), s.Embeds...)
	c.Attach = append([]FileSpec(nil), s.Attach...)
	c.To = append([]string(nil), s.To...)
	c.Cc = append([]string(nil), s.Cc...)
	c.Bcc = append([]string(nil), s.Bcc...)
	return c
}

// LoginPromptSets are spellings of the two LOGIN challenges seen in the wild, plus servers that
// repeat a prompt or send none.
var LoginPromptSets = [][]string{nil, nil, {"username:", "password:"}, {"User Name\x00", "Password\x00"}, {"Username:", "Username:"}, {"login", "Username:"}, {"", ""}, {"Password:", "Username:"}}
