package props

import (
	"bytes"
	"context"
	"fmt"
	netmail "net/mail"
	"strings"
	"testing"
	"time"

	mail "github.com/wneessen/go-mail"

	"verif/sim/refsmtpd"
	"verif/sim/sim"
)

// C06 — Recipients are exactly To+Cc+Bcc, and Bcc stays hidden.
//
// Workload: random sequences of address-setting calls (To/AddTo/AddToFormat/ToIgnoreInvalid/
// ToFromString and the Cc/Bcc/From/EnvelopeFrom/ReplyTo equivalents, with display names needing
// quoting or RFC 2047, and with invalid inputs mixed in) applied simultaneously to the Msg and to
// a trivial reference model (three ordered lists + from + envelope-from + reply-to with the
// documented replace/append semantics), then a direct render and a send of 1..2 such messages
// under benign and faulty reply scripts (e.g. a refused RCPT followed by RSET and the next
// message). Oracle: MAIL path = model sender; RCPT sequence = To‖Cc‖Bcc of the model, one per
// occurrence, in order; no Bcc address anywhere in the rendered/committed bytes; From (or the
// envelope-from when no From was set), To, Cc, Reply-To appear exactly once and parse back (with
// net/mail) to the model's names and addresses.

type C06Op struct {
	Kind  string     `json:"kind"`  // set | add | addformat | ignoreinvalid | fromstring | format
	Field string     `json:"field"` // to | cc | bcc | from | envfrom | replyto
	Addrs []AddrSpec `json:"addrs,omitempty"`
	Junk  []string   `json:"junk,omitempty"` // invalid inputs mixed in (position: appended)
}

type C06Msg struct {
	Token string  `json:"token"`
	Ops   []C06Op `json:"ops"`
	// Prelude: calls made for an earlier mail on the same Msg value, followed by Msg.Reset();
	// nothing of them may survive into this message.
	Prelude []C06Op `json:"prelude,omitempty"`
}

type C06Scenario struct {
	Msgs   []C06Msg        `json:"msgs"`
	Server refsmtpd.Config `json:"server"`
	Sched  uint64          `json:"sched"`
	DSN    bool            `json:"dsn,omitempty"` // the Client asks for delivery status notifications
	// SendmailFirst: before the render and the send the caller tries to hand each message to a
	// local sendmail binary that does not exist ("missing"), or with a context that is already
	// over ("expired"); the attempt fails and the caller falls back to SMTP.
	SendmailFirst string `json:"sendmailFirst,omitempty"`
}

type c06 struct{}

func init() { register(&c06{}) }

func (*c06) ID() string                     { return "C06" }
func (*c06) Level() string                  { return "exploration" }
func (*c06) Decode(raw []byte) (any, error) { return decodeInto[C06Scenario](raw) }

var c06Names = []string{"", "", "Plain Name", "Last, First", "Ünï Cödé", "名前 太郎", "Dr. Who (tardis)", "semi;colon", "at@sign", "a very long display name that will have to be folded somewhere along the line by the header writer",
	"Doe,  John", "Dept. A   / Room 2", "tab\tin the name", "two  blanks in a display name that is long enough to be folded by the header writer  somewhere",
	// non-ASCII together with characters that mean something in an address list
	"Müller, Jörg", "Jörg Müller (Vertrieb)", "Größe: <XL> [neu]", `"Zitat" für ünï; cödé`, "bücher@laden"}

func c06Addr(r *sim.Rand, tok, field string, n int) AddrSpec {
	local := fmt.Sprintf("%s-%s-%d", field, tok, n)
	if r.Chance(1, 8) {
		local = fmt.Sprintf("%s %s-%d", field, tok, n) // needs quoting
	}
	if r.Chance(1, 10) {
		local = fmt.Sprintf("%s.ü-%s-%d", field, tok, n)
	}
	if r.Chance(1, 10) {
		// the "percent hack" and other atext that means something to a formatter
		local = fmt.Sprintf("%s%%%s-%d", field, sim.Pick(r, []string{"emea", "s", "d", "v", "!", "%"}), n) + "-" + tok
	}
	if r.Chance(1, 10) {
		// quoted-string local parts with the two characters that need a quoted-pair
		local = fmt.Sprintf("%s%s%s-%d", field, sim.Pick(r, []string{`\\`, `\\x`, `"`, `\\"`, `a\\b c`}), tok, n)
	}
	return AddrSpec{Name: sim.Pick(r, c06Names), Local: local, Domain: sim.Pick(r, []string{"dest.example", "other.example", "sub.dest.example", "dest.example", "other.example", "Mixed.Case.Example", "UPPER.EXAMPLE"})}
}

func (p *c06) Gen(seed uint64, i int, tier string) (any, bool) {
	n := 120000
	if tier == "thorough" {
		n = 1000000
	}
	if i >= n {
		return nil, false
	}
	r := sim.NewRand(sim.Derive(seed, 6, uint64(i)))
	sc := &C06Scenario{Sched: sim.Derive(seed, 6, uint64(i), 1)}
	sc.Server.Caps = []string{"8BITMIME", "SMTPUTF8"}
	if r.Chance(1, 3) {
		sc.Server.Caps = append(sc.Server.Caps, "DSN")
	}
	if r.Chance(1, 3) {
		sc.DSN = true
	}
	nm := 1 + r.Intn(2)
	cnt := 0
	for m := 0; m < nm; m++ {
		tok := fmt.Sprintf("k%dm%d", i%1000, m)
		msg := C06Msg{Token: tok}
		if r.Chance(1, 4) {
			// the Msg value has been used for another mail before
			for k, f := range []string{"envfrom", "from", "to", "cc", "bcc", "replyto"} {
				if r.Chance(2, 3) {
					kind := "set"
					if k >= 2 && k <= 4 {
						kind = sim.Pick(r, []string{"set", "add"})
					}
					cnt++
					msg.Prelude = append(msg.Prelude, C06Op{Kind: kind, Field: f, Addrs: []AddrSpec{c06Addr(r, tok, "old"+f, cnt)}})
				}
			}
		}
		// a sender first, so that most messages are sendable
		if r.Chance(9, 10) {
			cnt++
			msg.Ops = append(msg.Ops, C06Op{Kind: "set", Field: "from", Addrs: []AddrSpec{c06Addr(r, tok, "from", cnt)}})
		}
		nops := 2 + r.Intn(7)
		for k := 0; k < nops; k++ {
			field := sim.Pick(r, []string{"to", "to", "cc", "bcc", "to", "cc", "bcc", "from", "envfrom", "replyto"})
			op := C06Op{Field: field}
			switch field {
			case "from", "envfrom", "replyto":
				op.Kind = sim.Pick(r, []string{"set", "format"})
				cnt++
				op.Addrs = []AddrSpec{c06Addr(r, tok, field, cnt)}
				if field == "from" && op.Kind == "set" && r.Chance(1, 6) {
					op.Kind = "ignoreinvalid"
				}
				if field == "envfrom" && r.Chance(1, 4) {
					// the envelope sender is taken back: set to nothing, or to something that is
					// no address through the setter that ignores invalid input — From is the
					// envelope sender again
					op.Kind = sim.Pick(r, []string{"clear-empty", "clear-ignoreinvalid"})
				}
			default:
				op.Kind = sim.Pick(r, []string{"set", "add", "addformat", "ignoreinvalid", "fromstring", "add"})
				na := 1
				if op.Kind == "set" || op.Kind == "ignoreinvalid" || op.Kind == "fromstring" {
					na = r.Intn(4)
				}
				for a := 0; a < na; a++ {
					cnt++
					op.Addrs = append(op.Addrs, c06Addr(r, tok, field, cnt))
				}
				if r.Chance(1, 5) && len(op.Addrs) > 0 && field != "bcc" {
					op.Addrs = append(op.Addrs, op.Addrs[0]) // the same address twice
				}
				if r.Chance(1, 6) && (op.Kind == "add" || op.Kind == "set") && len(op.Addrs) > 0 {
					// an address that an earlier call put into another field (somebody on To who
					// also gets a blind copy; a Cc who is on To as well): one RCPT per occurrence
					var pool []AddrSpec
					for _, prev := range msg.Ops {
						if (prev.Field == "to" || prev.Field == "cc" || prev.Field == "bcc") && prev.Field != field && (prev.Kind == "set" || prev.Kind == "add") && len(prev.Junk) == 0 {
							pool = append(pool, prev.Addrs...)
						}
					}
					if len(pool) > 0 {
						op.Addrs[len(op.Addrs)-1] = pool[r.Intn(len(pool))]
					}
				}
			}
			if r.Chance(1, 6) && (op.Kind == "set" || op.Kind == "ignoreinvalid" || op.Kind == "add" || op.Kind == "fromstring") {
				op.Junk = []string{sim.Pick(r, []string{"not an address", "a@", "@b.example", "<>", "x y z", "a@b@c", ""})}
			}
			msg.Ops = append(msg.Ops, op)
		}
		sc.Msgs = append(sc.Msgs, msg)
	}
	if r.Chance(1, 8) {
		sc.SendmailFirst = sim.Pick(r, []string{"missing", "expired"})
	}
	if r.Chance(1, 3) {
		sc.Server.Rules = []refsmtpd.Rule{{Verb: "RCPT", Nth: 1 + r.Intn(3), Action: refsmtpd.Action{Code: sim.Pick(r, []int{450, 550, 452, 552}), Text: "recipient refused"}}}
		if r.Chance(1, 3) {
			sc.Server.Rules = append(sc.Server.Rules, refsmtpd.Rule{Verb: "MAIL", Nth: 1, Action: refsmtpd.Action{Code: 451, Text: "try later"}})
		}
	}
	return sc, true
}

// c06Model is the reference model of one message's address state.
type c06Model struct {
	to, cc, bcc            []AddrSpec
	from, envfrom, replyto *AddrSpec
}

func (md *c06Model) list(field string) *[]AddrSpec {
	switch field {
	case "to":
		return &md.to
	case "cc":
		return &md.cc
	}
	return &md.bcc
}

func addrText(a AddrSpec) string { return a.Text() }

// bare returns the addr-spec part as a careful caller would write it (quoted if necessary).
func bare(a AddrSpec) string {
	s := (&netmail.Address{Address: a.mailbox()}).String()
	return strings.TrimSuffix(strings.TrimPrefix(s, "<"), ">")
}

func sameAddrs(got []*netmail.Address, want []AddrSpec) bool {
	if len(got) != len(want) {
		return false
	}
	for i := range got {
		if got[i].Address != want[i].mailbox() || got[i].Name != want[i].Name {
			return false
		}
	}
	return true
}

func (p *c06) Exec(t *testing.T, scAny any) Outcome {
	sc := scAny.(*C06Scenario)
	var out Outcome
	var env *NetEnv
	var call *CallRec
	models := make([]*c06Model, len(sc.Msgs))
	msgs := make([]*mail.Msg, len(sc.Msgs))
	renders := make([][]byte, len(sc.Msgs))
	var infra string
	res := RunSim(t, sc.Sched, sim.Policy{Kind: "random"}, 0, time.Hour, func(k *sim.Kernel) (func(), func()) {
		env = &NetEnv{K: k, Srv: refsmtpd.New(k, sc.Server, TLSMat)}
		return func() {
			for mi, ms := range sc.Msgs {
				m := mail.NewMsg()
				if len(ms.Prelude) > 0 {
					for _, op := range ms.Prelude {
						in := addrText(op.Addrs[0])
						switch op.Field {
						case "envfrom":
							_ = m.EnvelopeFrom(in)
						case "from":
							_ = m.From(in)
						case "to":
							_ = m.AddTo(in)
						case "cc":
							_ = m.AddCc(in)
						case "bcc":
							_ = m.AddBcc(in)
						default:
							_ = m.ReplyTo(in)
						}
					}
					m.Subject("subject of the earlier mail")
					m.SetBodyString(mail.TypeTextPlain, "body of the earlier mail\r\n")
					_, _ = Render(m)
					m.Reset()
				}
				m.Subject("subject " + ms.Token)
				m.SetBodyString(mail.TypeTextPlain, "body of "+ms.Token+"\r\n")
				m.SetDateWithValue(FixedDate)
				m.SetMessageIDWithValue(ms.Token + "@sim.example")
				md := &c06Model{}
				for oi, op := range ms.Ops {
					if oi > 0 && (oi+mi+int(sc.Sched%3))%3 == 0 {
						// the message is rendered between two setter calls (a preview, a draft
						// saved to disk): rendering must not fix or alter any address state
						_, _ = Render(m)
					}
					if oi > 0 && (oi+mi+int(sc.Sched/3%4))%2 == 1 {
						// the caller looks at what the envelope would be right now (to log it, to
						// decide about the next call): reading must not fix anything either
						_, _ = m.GetRecipients()
						_, _ = m.GetSender(oi%2 == 0)
					}
					var texts []string
					for _, a := range op.Addrs {
						if op.Kind == "ignoreinvalid" && a.Name == "" && len(a.Local)%2 == 0 {
							// an address without display name, spelled without angle brackets
							texts = append(texts, bare(a))
							continue
						}
						texts = append(texts, addrText(a))
					}
					all := append(append([]string(nil), texts...), op.Junk...)
					var err error
					one := AddrSpec{}
					if len(op.Addrs) > 0 {
						one = op.Addrs[0]
					}
					switch op.Field {
					case "from", "envfrom", "replyto":
						switch {
						case op.Kind == "clear-empty":
							_ = m.SetAddrHeader(mail.HeaderEnvelopeFrom)
							md.envfrom = nil
							continue
						case op.Kind == "clear-ignoreinvalid":
							m.SetAddrHeaderIgnoreInvalid(mail.HeaderEnvelopeFrom, "this is no address")
							md.envfrom = nil
							continue
						case op.Kind == "ignoreinvalid":
							m.SetAddrHeaderIgnoreInvalid(mail.HeaderFrom, addrText(one))
						case op.Kind == "format" && op.Field == "from":
							err = m.FromFormat(one.Name, bare(one))
						case op.Kind == "format" && op.Field == "envfrom":
							err = m.EnvelopeFromFormat(one.Name, bare(one))
						case op.Kind == "format":
							err = m.ReplyToFormat(one.Name, bare(one))
						case op.Field == "from":
							err = m.From(addrText(one))
						case op.Field == "envfrom":
							err = m.EnvelopeFrom(addrText(one))
						default:
							err = m.ReplyTo(addrText(one))
						}
						if op.Kind == "ignoreinvalid" {
							// read back: either unchanged or set to this address
							if got := m.GetFrom(); len(got) == 1 && got[0].Address == one.mailbox() {
								o := one
								o.Name = got[0].Name
								md.from = &o
							}
							continue
						}
						if err == nil {
							o := one
							switch op.Field {
							case "from":
								md.from = &o
							case "envfrom":
								md.envfrom = &o
							default:
								md.replyto = &o
							}
						}
					default:
						lst := md.list(op.Field)
						type fns struct {
							set       func(...string) error
							add       func(string) error
							addFormat func(string, string) error
							ignore    func(...string)
							fromStr   func(string) error
							get       func() []*netmail.Address
						}
						f := map[string]fns{
							"to":  {m.To, m.AddTo, m.AddToFormat, m.ToIgnoreInvalid, m.ToFromString, m.GetTo},
							"cc":  {m.Cc, m.AddCc, m.AddCcFormat, m.CcIgnoreInvalid, m.CcFromString, m.GetCc},
							"bcc": {m.Bcc, m.AddBcc, m.AddBccFormat, m.BccIgnoreInvalid, m.BccFromString, m.GetBcc},
						}[op.Field]
						switch op.Kind {
						case "set":
							if err = f.set(all...); err == nil {
								*lst = append([]AddrSpec(nil), op.Addrs...)
							}
						case "add":
							in := addrText(one)
							if len(op.Addrs) == 0 || len(op.Junk) > 0 {
								in = "junk " + strings.Join(op.Junk, "")
								if err = f.add(in); err == nil {
									infra = fmt.Sprintf("setter accepted junk %q", in)
								}
								continue
							}
							if err = f.add(in); err == nil {
								*lst = append(*lst, one)
							}
						case "addformat":
							if len(op.Addrs) == 0 {
								continue
							}
							if err = f.addFormat(one.Name, bare(one)); err == nil {
								*lst = append(*lst, one)
							}
						case "fromstring":
							// the documented input is a comma-separated list: display names with commas
							// cannot be expressed in it, so only bare addr-specs are used here
							var bs []string
							var want []AddrSpec
							for _, a := range op.Addrs {
								if strings.ContainsAny(a.mailbox(), ",") {
									continue
								}
								bs = append(bs, bare(a))
								w := a
								w.Name = ""
								want = append(want, w)
							}
							if len(op.Junk) > 0 {
								// one field of the list is not an address: the call fails and leaves
								// the list as it was
								at := len(bs) / 2
								bs = append(append(append([]string(nil), bs[:at]...), "junk "+op.Junk[0]), bs[at:]...)
								if err = f.fromStr(strings.Join(bs, ", ")); err == nil {
									infra = fmt.Sprintf("%sFromString accepted %q", op.Field, strings.Join(bs, ", "))
								}
								continue
							}
							if err = f.fromStr(strings.Join(bs, ", ")); err == nil {
								*lst = want
							}
						case "ignoreinvalid":
							f.ignore(all...)
							// the survivors are read back from the getter; the model only demands that
							// they are a subsequence of the inputs holding every pure-ASCII valid input
							got := f.get()
							var surv []AddrSpec
							j := 0
							for _, g := range got {
								for j < len(op.Addrs) && op.Addrs[j].mailbox() != g.Address {
									if isASCII(addrText(op.Addrs[j])) {
										out.violate("C06:ignoreinvalid-dropped-valid", "%sIgnoreInvalid dropped the valid ASCII input %q", op.Field, addrText(op.Addrs[j]))
									}
									j++
								}
								if j >= len(op.Addrs) {
									out.violate("C06:ignoreinvalid-invented", "%sIgnoreInvalid produced %q, which is not among its inputs %v", op.Field, g.Address, all)
									break
								}
								s := op.Addrs[j]
								s.Name = g.Name
								surv = append(surv, s)
								j++
							}
							for ; j < len(op.Addrs); j++ {
								if isASCII(addrText(op.Addrs[j])) {
									out.violate("C06:ignoreinvalid-dropped-valid", "%sIgnoreInvalid dropped the valid ASCII input %q", op.Field, addrText(op.Addrs[j]))
								}
							}
							*lst = surv
						}
					}
					_ = oi
				}
				models[mi], msgs[mi] = md, m
				if sc.SendmailFirst != "" {
					ctx, cancel := context.WithCancel(context.Background())
					if sc.SendmailFirst == "expired" {
						cancel()
					}
					if err := m.WriteToSendmailWithContext(ctx, "/nonexistent/verif/sendmail"); err == nil {
						infra = "hand-over to a sendmail binary that does not exist succeeded"
					}
					cancel()
					out.stat("probe.sendmail-handover-failed-first", 1)
				}
				if data, err := Render(m); err == nil {
					renders[mi] = data
				}
			}
			ccfg := ClientCfg{TLSPolicy: "none"}
			if sc.DSN {
				ccfg.DSN, ccfg.DSNNotify = true, []string{"FAILURE", "DELAY"}
			}
			c, err := BuildClient(ccfg, env.Dial, nil)
			if err != nil {
				infra = err.Error()
				return
			}
			call = env.Call("DialAndSend", func() error { return c.DialAndSendWithContext(context.Background(), msgs...) })
		}, env.Freeze
	})
	out.SimNs, out.Steps, out.Digest = res.VirtualNs, res.Steps, res.Digest
	if infra != "" {
		out.Infra = infra
		return out
	}
	if res.BubbleErr != "" {
		out.Infra = "bubble: " + res.BubbleErr
		return out
	}
	for _, tp := range res.TaskPanics {
		out.violate("C06:panic", "%s", tp)
	}
	if call == nil || !call.Returned {
		out.stat("not-judged.call-did-not-return", 1)
		return out
	}
	if call.Panic != nil {
		out.violate("C06:panic", "DialAndSend panicked: %v\n%s", call.Panic, call.PanicStack)
		return out
	}
	h := env.Srv.H
	// envelope per message: split the command stream at MAIL
	type envl struct {
		mail  *refsmtpd.Path
		rcpts []refsmtpd.Path
		line  string
	}
	var envs []envl
	for _, e := range h.Events {
		if e.Kind != "cmd" || e.Cmd == nil {
			continue
		}
		switch e.Verb {
		case "MAIL":
			envs = append(envs, envl{mail: e.Cmd.Path, line: e.Line})
		case "RCPT":
			if len(envs) > 0 && e.Cmd.Path != nil {
				envs[len(envs)-1].rcpts = append(envs[len(envs)-1].rcpts, *e.Cmd.Path)
			}
		}
	}
	ei := 0
	sendable := 0
	for mi, md := range models {
		if md == nil {
			continue
		}
		tok := sc.Msgs[mi].Token
		sender := md.envfrom
		if sender == nil {
			sender = md.from
		}
		want := append(append(append([]AddrSpec(nil), md.to...), md.cc...), md.bcc...)
		// ---- rendered header block ----
		if data := renders[mi]; data != nil {
			p.judgeRender(&out, tok, md, data, "direct render")
		}
		if sender == nil || len(want) == 0 {
			// not sendable: the client must refuse it locally (no MAIL for it)
			continue
		}
		sendable++
		if ei >= len(envs) {
			// the message did not reach MAIL (an earlier failure closed the connection?)
			if call.Err == nil {
				out.violate("C06:message-not-sent", "DialAndSend returned nil but message %s never reached MAIL", tok)
			}
			continue
		}
		ev := envs[ei]
		ei++
		if ev.mail == nil || ev.mail.Mailbox() != sender.mailbox() {
			which := "from"
			if md.envfrom != nil {
				which = "envelope-from"
			}
			out.violate("C06:envelope-sender:"+which, "message %s: the model's envelope sender is %q (%s), the server received %q", tok, sender.mailbox(), which, ev.line)
		}
		// a refused MAIL ends the message before RCPT
		refusedMail := false
		for _, e := range h.Events {
			if e.Kind == "reply" && e.Verb == "MAIL" && e.Code >= 400 && e.Nth == ei {
				refusedMail = true
			}
		}
		if refusedMail {
			continue
		}
		var got []string
		for _, rp := range ev.rcpts {
			got = append(got, rp.Mailbox())
		}
		var wantS []string
		for _, a := range want {
			wantS = append(wantS, a.mailbox())
		}
		if strings.Join(got, "\x00") != strings.Join(wantS, "\x00") {
			cls := "differs"
			switch {
			case len(got) < len(wantS):
				cls = "missing"
			case len(got) > len(wantS):
				cls = "extra"
			}
			out.violate("C06:rcpt-sequence:"+cls, "message %s: To+Cc+Bcc of the model is %q, the server received RCPT for %q", tok, wantS, got)
		}
	}
	for _, cm := range h.Commits {
		tok := ""
		for mi, md := range models {
			if md == nil {
				continue
			}
			if bytes.Contains(cm.Content, []byte("<"+sc.Msgs[mi].Token+"@sim.example>")) {
				tok = sc.Msgs[mi].Token
				p.judgeRender(&out, tok, md, cm.Content, "committed message")
			}
		}
		if tok == "" {
			out.violate("C06:commit-unattributable", "a committed message carries no known Message-ID")
		}
	}
	out.stat("messages.sendable", sendable)
	out.stat("commits", len(h.Commits))
	var sig []string
	for _, ms := range sc.Msgs {
		for _, op := range ms.Ops {
			sig = append(sig, fmt.Sprintf("%s.%s%d", op.Field, op.Kind, len(op.Addrs)))
		}
		sig = append(sig, "|")
	}
	out.Key = strings.Join(sig, ",") + scriptSig(sc.Server.Rules) + fmt.Sprint(sc.Sched)
	out.Nontrivial = sendable > 0
	return out
}

func isASCII(s string) bool {
	for i := 0; i < len(s); i++ {
		if s[i] >= 0x80 {
			return false
		}
	}
	return true
}

// judgeRender checks the header block of a rendering against the model.
func (p *c06) judgeRender(out *Outcome, tok string, md *c06Model, data []byte, where string) {
	visible := map[string]bool{}
	for _, a := range append(append([]AddrSpec(nil), md.to...), md.cc...) {
		visible[a.mailbox()] = true
	}
	for _, b := range md.bcc {
		if visible[b.mailbox()] {
			continue // the same mailbox is on To or Cc as well, where it is meant to be seen
		}
		// the bare local part is searched too (a quoted or encoded form of the address), unless
		// it is a substring of an address that is meant to be seen
		shadowed := false
		for v := range visible {
			if strings.Contains(v, b.Local) {
				shadowed = true
			}
		}
		if bytes.Contains(data, []byte(b.mailbox())) || (!shadowed && bytes.Contains(data, []byte(b.Local))) {
			out.violate("C06:bcc-visible", "message %s (%s): the Bcc address %q occurs in the rendered message", tok, where, b.mailbox())
		}
	}
	// Unfold the header section the way RFC 5322 2.2.3 says (remove each CRLF that is followed
	// by white space, keep the white space) before net/mail sees it: net/textproto joins
	// continuation lines with exactly one blank, which would change a display name that was
	// folded at a run of blanks — a property of that reader, not of what was written.
	if i := bytes.Index(data, []byte("\r\n\r\n")); i >= 0 {
		h := append([]byte(nil), data[:i+2]...)
		h = bytes.ReplaceAll(h, []byte("\r\n "), []byte(" "))
		h = bytes.ReplaceAll(h, []byte("\r\n\t"), []byte("\t"))
		data = append(h, data[i+2:]...)
	}
	pm, err := netmail.ReadMessage(bytes.NewReader(data))
	if err != nil {
		out.violate("C06:render-unparsable", "message %s (%s): net/mail cannot read the rendering: %v", tok, where, err)
		return
	}
	count := func(name string) int {
		n := 0
		for k, v := range pm.Header {
			if strings.EqualFold(k, name) {
				n += len(v)
			}
		}
		return n
	}
	checkList := func(name string, want []AddrSpec) {
		n := count(name)
		if len(want) == 0 {
			if n > 0 {
				// an empty list may legitimately render as an empty field or not at all; a field
				// with content would be an invented address
				if l, err := pm.Header.AddressList(name); err == nil && len(l) > 0 {
					out.violate("C06:header-invented:"+name, "message %s (%s): header %s lists %v although the model has no such address", tok, where, name, l)
				}
			}
			return
		}
		if n != 1 {
			out.violate("C06:header-count:"+name, "message %s (%s): header %s occurs %d times, want exactly once", tok, where, name, n)
			return
		}
		l, err := pm.Header.AddressList(name)
		if err != nil {
			out.violate("C06:header-unparsable:"+name, "message %s (%s): header %s = %q does not parse: %v", tok, where, name, pm.Header.Get(name), err)
			return
		}
		if !sameAddrs(l, want) {
			out.violate("C06:header-differs:"+name, "message %s (%s): header %s parses back to %v, the model has %v", tok, where, name, fmtAddrs(l), want)
		}
	}
	checkList("To", md.to)
	checkList("Cc", md.cc)
	from := md.from
	if from == nil {
		from = md.envfrom
	}
	if from != nil {
		checkList("From", []AddrSpec{*from})
	} else if count("From") > 0 {
		out.violate("C06:header-invented:From", "message %s (%s): a From header although neither From nor envelope-from was set", tok, where)
	}
	if md.replyto != nil {
		checkList("Reply-To", []AddrSpec{*md.replyto})
	}
	if count("Bcc") > 0 {
		out.violate("C06:bcc-header", "message %s (%s): the rendering has a Bcc header", tok, where)
	}
}

func fmtAddrs(l []*netmail.Address) string {
	var s []string
	for _, a := range l {
		s = append(s, fmt.Sprintf("{%s %s}", a.Name, a.Address))
	}
	return "[" + strings.Join(s, " ") + "]"
}

func (p *c06) Shrink(scAny any) []any {
	sc := scAny.(*C06Scenario)
	var out []any
	if len(sc.Msgs) > 1 {
		for i := range sc.Msgs {
			c := *sc
			c.Msgs = append(append([]C06Msg(nil), sc.Msgs[:i]...), sc.Msgs[i+1:]...)
			out = append(out, &c)
		}
	}
	for mi := range sc.Msgs {
		for oi := range sc.Msgs[mi].Ops {
			c := *sc
			c.Msgs = append([]C06Msg(nil), sc.Msgs...)
			m := c.Msgs[mi]
			m.Ops = append(append([]C06Op(nil), m.Ops[:oi]...), m.Ops[oi+1:]...)
			c.Msgs[mi] = m
			out = append(out, &c)
		}
	}
	for mi := range sc.Msgs {
		for oi := range sc.Msgs[mi].Prelude {
			c := *sc
			c.Msgs = append([]C06Msg(nil), sc.Msgs...)
			m := c.Msgs[mi]
			m.Prelude = append(append([]C06Op(nil), m.Prelude[:oi]...), m.Prelude[oi+1:]...)
			c.Msgs[mi] = m
			out = append(out, &c)
		}
	}
	if len(sc.Server.Rules) > 0 {
		c := *sc
		c.Server.Rules = nil
		out = append(out, &c)
	}
	return out
}

func (p *c06) Info() PropInfo {
	return PropInfo{
		Rule: "seeded search: 1..2 messages, each built by a sender call followed by 2..8 address-setting calls drawn from {To/Cc/Bcc: set (0..3 addresses), AddX, AddXFormat, XIgnoreInvalid, XFromString; From/EnvelopeFrom/ReplyTo: plain and Format variants, FromIgnoreInvalid} with generated addresses (unique per field, some local parts needing quoting or UTF-8, display names plain / with comma / non-ASCII / non-ASCII together with , ( ) : ; < > @ [ ] \" / with parentheses / very long / with runs of blanks / with a TAB, duplicates within a list, invalid inputs mixed in), applied to the Msg and to the reference model; a quarter of the messages are built on a Msg value that carried another mail before and was Reset(); FromString lists partly with an invalid field; the envelope sender taken back; an address that an earlier call put into another field (one RCPT per occurrence); domains with upper-case letters; an eighth of the scenarios first try a hand-over to a sendmail binary that does not exist (or with a context that is over); then a direct render and DialAndSend under no fault or a refused RCPT (450/550/452/552) optionally plus a refused MAIL; non-trivial = at least one message is sendable; distinct = distinct (call sequence, reply script, seed)",
		Assumptions: []string{"for the IgnoreInvalid setters the survivors are read back from the getters; the model demands only that they are a subsequence of the inputs and that no pure-ASCII valid input is dropped",
			"XFromString is exercised with bare addr-specs only (its comma-separated format cannot carry display names with commas)",
			"Bcc addresses are generated unique to the Bcc list, so any occurrence of one in the bytes is a leak"},
		Real:        []string{"go-mail Msg address setters/getters, writeMsg header emission, GetSender/GetRecipients, Client.DialAndSend"},
		Stubbed:     []string{"TCP", "SMTP server (command stream, commit log)", "clock", "crypto/rand"},
		Exhaustive:  func(string) bool { return false },
		QuickBudget: 100 * time.Second, ThoroughBudget: 25 * time.Minute,
	}
}
