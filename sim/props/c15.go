package props

import (
	"context"
	"crypto/tls"
	"fmt"
	"strings"
	"testing"
	"time"

	mail "github.com/wneessen/go-mail"
	"github.com/wneessen/go-mail/smtp"

	"verif/sim/refsmtpd"
	"verif/sim/sim"
)

// C15 — SCRAM authenticates the server.
//
// Enumerated: every sequence of server messages up to length 5 (quick: 4) over the alphabet of
// the property {valid server-first, server-first with foreign nonce, with truncated nonce,
// malformed server-first, valid server-final, server-final for another key, server-final over
// empty state, empty challenge, junk, 235, 535}, for SCRAM-SHA-1/-256 and both PLUS variants (the
// latter over real TLS 1.2 and 1.3 sessions on the simulated transport). The scripted adversary
// knows everything but the password. Oracle per path: DialWithContext returns nil ⇒ the exchange
// that was running when the 235 arrived contains a valid server-first for its client nonce and,
// after it, the valid server-final; and the client acknowledges (empty response) a server-final
// only if it is the valid one for the running exchange.

type C15Scenario struct {
	Mech   string   `json:"mech"`
	TLSVer string   `json:"tlsVer,omitempty"`
	Script []string `json:"script"`
	Sched  uint64   `json:"sched"`
	// Via: "" = mail.Client.DialWithContext; "smtp" = smtp.Client.Auth called directly (the
	// outcome is what Auth returns, with nothing of the mail package after it)
	Via string `json:"via,omitempty"`
	// Prime: what happened in this process before the judged exchange. "other": another Client
	// authenticated honestly with the RIGHT password against the same account (same user, salt,
	// iteration count). "same": the judged Client itself did, on an earlier connection, and the
	// adversary has recorded that session.
	Prime string `json:"prime,omitempty"`
	// WrongPw: the judged client holds a password that is not the account's. The adversary's
	// "valid" messages are computed with the account's password, so for this client none of
	// them is valid and no path may end in success.
	WrongPw bool `json:"wrongPw,omitempty"`
}

type c15 struct{}

func init() { register(&c15{}) }

func (*c15) ID() string                     { return "C15" }
func (*c15) Level() string                  { return "fault_enumeration" }
func (*c15) Decode(raw []byte) (any, error) { return decodeInto[C15Scenario](raw) }

var c15Alphabet = []string{"first-ok", "first-foreign", "first-trunc", "first-malformed", "first-iter0", "final-ok", "final-prev", "final-other", "final-empty", "final-zerokey", "final-blank", "empty", "junk", "235", "535", "hangup", "first-ok-ext", "final-noext", "first-prefix", "junk-prompt", "final-error"}

type c15Variant struct{ mech, tls, via string }

var c15Variants = []c15Variant{{"SCRAM-SHA-256", "", ""}, {"SCRAM-SHA-1", "", "smtp"}, {"SCRAM-SHA-256-PLUS", "1.3", "smtp"}, {"SCRAM-SHA-1-PLUS", "1.2", ""},
	{"SCRAM-SHA-256", "", "smtp"}, {"SCRAM-SHA-1", "", ""}, {"SCRAM-SHA-256-PLUS", "1.2", ""}, {"SCRAM-SHA-1-PLUS", "1.3", "smtp"}, {"SCRAM-SHA-256-PLUS", "1.3", ""}, {"SCRAM-SHA-1-PLUS", "1.2", "smtp"}}

// the histories of Prime: variants and the (smaller) alphabet their scripts are enumerated over
var c15PrimedAlphabet = []string{"first-ok", "final-ok", "final-lastconn", "final-prev", "empty", "235", "hangup", "final-emptypw"}

// long scripts: only messages a client answers without ending the exchange, five to seven of
// them in a row (a server that keeps the exchange alive and never proves anything)
var c15LongAlphabet = []string{"empty", "first-ok", "first-ok-ext"}

func c15LongCount() int { return 243 + 729 + 2187 }

func c15LongUnrank(k int) []string {
	n := 5
	for _, c := range []int{243, 729, 2187} {
		if k < c {
			break
		}
		k -= c
		n++
	}
	s := make([]string, n)
	for j := n - 1; j >= 0; j-- {
		s[j] = c15LongAlphabet[k%3]
		k /= 3
	}
	return s
}

var c15Primed = []struct {
	mech, tls, via, prime string
	wrongPw               bool
}{
	{"SCRAM-SHA-256", "", "", "other", true}, {"SCRAM-SHA-1", "", "smtp", "other", true}, {"SCRAM-SHA-256-PLUS", "1.3", "", "other", true},
	{"SCRAM-SHA-256", "", "", "same", false}, {"SCRAM-SHA-1", "", "", "same", false}, {"SCRAM-SHA-1-PLUS", "1.2", "", "same", false},
	// "same-custom": as "same", and the caller configured the mechanism as a value of its own
	// (WithSMTPAuthCustom(smtp.ScramSHA256Auth(..))): one smtp.Auth value serves both connections,
	// so whatever it keeps from the recorded exchange is still in it when the adversary speaks
	{"SCRAM-SHA-256", "", "", "same-custom", false}, {"SCRAM-SHA-1", "", "", "same-custom", false},
	// "unprep": the caller's own smtp.Auth value holds a password that cannot be prepared (a
	// control character); a first attempt with it has failed on an earlier connection, the
	// judged one is the second attempt with the same value. No path may end in success.
	{"SCRAM-SHA-256", "", "", "unprep", true}, {"SCRAM-SHA-1", "", "", "unprep", true},
}

func c15Count(depth int) int {
	n, p := 0, 1
	for d := 1; d <= depth; d++ {
		p *= len(c15Alphabet)
		n += p
	}
	return n
}

func c15Unrank(i, depth int) []string {
	p := 1
	for d := 1; d <= depth; d++ {
		p *= len(c15Alphabet)
		if i < p {
			s := make([]string, d)
			for k := d - 1; k >= 0; k-- {
				s[k] = c15Alphabet[i%len(c15Alphabet)]
				i /= len(c15Alphabet)
			}
			return s
		}
		i -= p
	}
	return nil
}

func (p *c15) Gen(seed uint64, i int, tier string) (any, bool) {
	depth := 4
	variants := c15Variants[:5]
	if tier == "thorough" {
		depth = 5
		variants = c15Variants
	}
	per := c15Count(depth)
	v := i / per
	if v >= len(variants) {
		// histories: something happened in this process before the judged exchange
		j := i - per*len(variants)
		nAlpha := len(c15PrimedAlphabet)
		perP := nAlpha + nAlpha*nAlpha + nAlpha*nAlpha*nAlpha
		pv := j / perP
		if pv >= len(c15Primed) {
			// long scripts
			l := j - perP*len(c15Primed)
			lv := l / c15LongCount()
			if lv >= 2 {
				return nil, false
			}
			v := []c15Variant{{"SCRAM-SHA-256", "", ""}, {"SCRAM-SHA-1", "", "smtp"}}[lv]
			return &C15Scenario{Mech: v.mech, Via: v.via, Script: c15LongUnrank(l % c15LongCount()), Sched: sim.Derive(seed, 15, uint64(i))}, true
		}
		k := j % perP
		var script []string
		switch {
		case k < nAlpha:
			script = []string{c15PrimedAlphabet[k]}
		case k < nAlpha+nAlpha*nAlpha:
			k -= nAlpha
			script = []string{c15PrimedAlphabet[k/nAlpha], c15PrimedAlphabet[k%nAlpha]}
		default:
			k -= nAlpha + nAlpha*nAlpha
			script = []string{c15PrimedAlphabet[k/(nAlpha*nAlpha)], c15PrimedAlphabet[k/nAlpha%nAlpha], c15PrimedAlphabet[k%nAlpha]}
		}
		pr := c15Primed[pv]
		return &C15Scenario{Mech: pr.mech, TLSVer: pr.tls, Via: pr.via, Prime: pr.prime, WrongPw: pr.wrongPw, Script: script, Sched: sim.Derive(seed, 15, uint64(i))}, true
	}
	// sequences that continue after a final reply (235/535) or a hang-up are the same path as their prefix
	sc := &C15Scenario{Mech: variants[v].mech, TLSVer: variants[v].tls, Via: variants[v].via, Script: c15Unrank(i%per, depth), Sched: sim.Derive(seed, 15, uint64(i))}
	for k, s := range sc.Script[:len(sc.Script)-1] {
		if s == "235" || s == "535" || s == "hangup" {
			_ = k
			return &C15Scenario{Mech: sc.Mech, TLSVer: sc.TLSVer, Via: sc.Via, Script: nil, Sched: sc.Sched}, true
		}
	}
	return sc, true
}

func (p *c15) Exec(t *testing.T, scAny any) Outcome {
	sc := scAny.(*C15Scenario)
	var out Outcome
	if sc.Script == nil {
		out.stat("trivial.duplicate-of-shorter-path", 1)
		return out
	}
	plus := strings.HasSuffix(sc.Mech, "-PLUS")
	cfg := ClientCfg{TLSPolicy: "none", AuthType: sc.Mech, User: "user-c15", Pass: "correct horse battery staple"}
	srv := refsmtpd.Config{Caps: []string{"8BITMIME", authCaps(allMechs...)},
		Auth: refsmtpd.AuthCfg{User: "user-c15", Pass: "correct horse battery staple", Salt: []byte("NaCl-c15-salt"), Iter: 8, NonceSuffix: "SrvNonceC15", Adversary: sc.Script}}
	if sc.Prime != "" && sc.Prime != "unprep" {
		srv.Auth.AdversaryFromConn = 2
	}
	if sc.Prime == "same-custom" || sc.Prime == "unprep" {
		cfg.AuthType = "CUSTOM-" + sc.Mech
	}
	if sc.Prime == "unprep" {
		cfg.Pass = "a password with a line feed\n"
	}
	if plus {
		cfg.TLSPolicy = "mandatory"
		srv.Caps = append(srv.Caps, "STARTTLS")
		srv.TLS = refsmtpd.TLSCfg{Cert: "valid", Version: sc.TLSVer}
	}
	var env *NetEnv
	var call, closeCall *CallRec
	res := RunSim(t, sc.Sched, sim.Policy{Kind: "random"}, 0, time.Hour, func(k *sim.Kernel) (func(), func()) {
		env = &NetEnv{K: k, Srv: refsmtpd.New(k, srv, TLSMat), Host: cfg.host()}
		return func() {
			var primed *mail.Client
			if sc.Prime == "unprep" {
				pc, err := BuildClient(cfg, env.Dial, nil)
				if err != nil {
					out.Infra = err.Error()
					return
				}
				if err := pc.DialWithContext(context.Background()); err == nil {
					_ = pc.Close()
				}
				primed = pc
			} else if sc.Prime != "" {
				// the earlier, honest session (the account's password is the right one there)
				pc, err := BuildClient(cfg, env.Dial, nil)
				if err != nil {
					out.Infra = err.Error()
					return
				}
				if err := pc.DialWithContext(context.Background()); err != nil {
					out.Infra = "the honest first session failed: " + err.Error()
					return
				}
				_ = pc.Close()
				if strings.HasPrefix(sc.Prime, "same") {
					primed = pc
				}
			}
			if sc.WrongPw && sc.Prime != "unprep" {
				cfg.Pass = "not the password of this account"
			}
			if sc.Via == "smtp" {
				conn, _ := env.Dial(context.Background(), "tcp", "mx.sim.example:25")
				sc2, err := smtp.NewClient(conn, cfg.host())
				if err != nil {
					out.Infra = "greeting: " + err.Error()
					return
				}
				if err := sc2.Hello("client.sim.example"); err != nil {
					out.Infra = "hello: " + err.Error()
					return
				}
				var st *tls.ConnectionState
				if plus {
					if err := sc2.StartTLS(&tls.Config{ServerName: cfg.host(), RootCAs: TLSMat.Pool, MinVersion: tls.VersionTLS12}); err != nil {
						out.Infra = "starttls: " + err.Error()
						return
					}
					s, ok := sc2.TLSConnectionState()
					if !ok {
						out.Infra = "no TLS state after StartTLS"
						return
					}
					st = &s
				}
				var a smtp.Auth
				switch sc.Mech {
				case "SCRAM-SHA-1":
					a = smtp.ScramSHA1Auth(cfg.User, cfg.Pass)
				case "SCRAM-SHA-256":
					a = smtp.ScramSHA256Auth(cfg.User, cfg.Pass)
				case "SCRAM-SHA-1-PLUS":
					a = smtp.ScramSHA1PlusAuth(cfg.User, cfg.Pass, st)
				default:
					a = smtp.ScramSHA256PlusAuth(cfg.User, cfg.Pass, st)
				}
				call = env.Call("smtp.Client.Auth", func() error { return sc2.Auth(a) })
				_ = sc2.Close()
				return
			}
			c := primed
			if c == nil {
				var err error
				if c, err = BuildClient(cfg, env.Dial, nil); err != nil {
					out.Infra = err.Error()
					return
				}
			}
			call = env.Call("DialWithContext", func() error { return c.DialWithContext(context.Background()) })
			if call.Err == nil && call.Panic == nil && call.Returned {
				closeCall = env.Call("Close", c.Close)
			}
		}, env.Freeze
	})
	_ = closeCall
	out.SimNs, out.Steps, out.Digest = res.VirtualNs, res.Steps, res.Digest
	if out.Infra != "" {
		return out
	}
	if res.BubbleErr != "" {
		out.Infra = "bubble: " + res.BubbleErr
		return out
	}
	if call == nil || !call.Returned {
		out.stat("not-judged.call-did-not-return", 1)
		return out
	}
	if call.Panic != nil {
		out.violate("C15:panic", "DialWithContext panicked: %v\n%s", call.Panic, call.PanicStack)
		return out
	}
	traces := env.Srv.AdvTrace()
	if len(traces) == 0 {
		out.stat("not-judged.no-auth-exchange", 1)
		if call.Err == nil {
			out.Infra = "dial succeeded without an AUTH exchange"
		}
		return out
	}
	tr := traces[0]
	if sc.Prime == "unprep" {
		tr = traces[len(traces)-1] // the second attempt is the judged one
		out.stat("probe.unprep.attempts", len(traces))
	}
	if sc.WrongPw {
		// computed with the account's password: not valid for a client that holds another one
		for i := range tr {
			if tr[i].Sym == "final-ok" {
				tr[i].Sym, tr[i].Valid = "final-for-the-accounts-password", false
			}
		}
	}
	var played []string
	for _, s := range tr {
		played = append(played, s.Sym)
	}
	path := strings.Join(played, ",")
	// which exchange was running at the end, and was it properly authenticated?
	lastEx := tr[len(tr)-1].Exchange
	firstValid, finalValid := false, false
	for _, s := range tr {
		if s.Exchange != lastEx {
			continue
		}
		if s.Sym == "first-ok" && s.Valid {
			// a repeated valid server-first after the server has already proven itself does not
			// undo that proof: the statement asks for "a nonce extending the client's nonce and
			// afterwards the ServerSignature" within the exchange, which then has happened
			firstValid = true
		}
		if s.Sym == "final-ok" && s.Valid && firstValid {
			finalValid = true
		}
	}
	success := call.Err == nil
	saw235 := len(tr) > 0 && tr[len(tr)-1].Sym == "235"
	if success && !(firstValid && finalValid) {
		what := "no valid server-first"
		if firstValid {
			what = "no valid server-final after the valid server-first"
		}
		out.violate("C15:accepted:path="+classifyPath(tr), "%s over TLS %q: authentication reported successful for the server message sequence [%s]: %s in the running exchange", sc.Mech, sc.TLSVer, path, what)
	}
	if success && !saw235 {
		out.violate("C15:success-without-235", "authentication reported successful although the server never sent 235 (path [%s])", path)
	}
	if !success && saw235 && firstValid && finalValid {
		// the honest path must work
		out.violate("C15:honest-path-refused", "%s: the honest sequence [%s] ended in an error: %v", sc.Mech, path, call.Err)
	}
	for _, s := range tr {
		if strings.HasPrefix(s.Sym, "first-") && !s.Valid && s.ClientMsg == "final" && s.Sym != "first-iter0" {
			out.violate("C15:proof-sent-after-invalid-first:"+s.Sym, "%s: the client answered the invalid server-first message %q with a client-final message (its proof) instead of ending the exchange (path [%s])", sc.Mech, s.Sym, path)
		}
		if strings.HasPrefix(s.Sym, "final-") && s.ClientMsg == "empty" && !s.Valid {
			out.violate("C15:ack-of-invalid-final:"+s.Sym, "%s: the client acknowledged (empty response) the server-final message %q, which is not the valid one for the running exchange (path [%s])", sc.Mech, s.Sym, path)
		}
	}
	out.stat("paths."+map[bool]string{true: "success", false: "error"}[success], 1)
	for _, s := range tr {
		out.stat("fault.fired.server_message_"+s.Sym, 1)
	}
	out.Key = sc.Mech + "/" + sc.TLSVer + "/" + sc.Via + "/" + sc.Prime + fmt.Sprint(sc.WrongPw) + "|" + path + "|" + fmt.Sprint(success)
	out.Nontrivial = len(tr) > 0
	return out
}

// classifyPath reduces an accepted path to its essence, so that the tag names the hole and not
// every decoration of it: which of the two proofs were missing and what directly preceded the 235.
func classifyPath(tr []refsmtpd.AdvStep) string {
	var parts []string
	lastEx := tr[len(tr)-1].Exchange
	for _, s := range tr {
		if s.Exchange != lastEx {
			continue
		}
		switch {
		case s.Sym == "first-ok" && s.Valid:
			parts = append(parts, "first-ok")
		case s.Sym == "final-ok" && s.Valid:
			parts = append(parts, "final-ok")
		case s.Sym == "235":
			parts = append(parts, "235")
		case strings.HasPrefix(s.Sym, "final-") && s.ClientMsg == "empty":
			parts = append(parts, s.Sym+"(acked)")
		case strings.HasPrefix(s.Sym, "first-") && s.ClientMsg == "final" && s.Sym != "first-iter0":
			// the client went on with its proof after a server-first that is not valid
			parts = append(parts, s.Sym+"(accepted)")
		}
	}
	// collapse repetitions
	var out []string
	for _, p := range parts {
		if len(out) == 0 || out[len(out)-1] != p {
			out = append(out, p)
		}
	}
	return strings.Join(out, ">")
}

func (p *c15) Shrink(scAny any) []any {
	sc := scAny.(*C15Scenario)
	var out []any
	for i := range sc.Script {
		c := *sc
		c.Script = append(append([]string(nil), sc.Script[:i]...), sc.Script[i+1:]...)
		if len(c.Script) > 0 {
			out = append(out, &c)
		}
	}
	if strings.HasSuffix(sc.Mech, "-PLUS") {
		c := *sc
		c.Mech = strings.TrimSuffix(sc.Mech, "-PLUS")
		c.TLSVer = ""
		out = append(out, &c)
	}
	return out
}

func (p *c15) Info() PropInfo {
	return PropInfo{
		Rule: "histories: an honest session of another client with the right password before a judged client that holds a wrong one, and an honest session of the same Client that the adversary records and replays (final-lastconn) — with the mechanism configured by name (a new Auth value per connection) and as a caller-made smtp.Auth value that serves both connections —, each with all sequences of length 1..3 over a 7-symbol alphabet; enumeration: all sequences of length 1..4 (thorough: 1..5) over the 21-symbol server alphabet {final-error (\"e=other-error\", the server-error form of the server-final message), first-prefix (r= is the first half of the client's nonce and nothing else), junk-prompt (\"Username:\"), hangup (the connection is dropped), first-ok-ext (valid server-first with an extension attribute), final-noext (signed over the messages without that attribute), first-ok, first-foreign, first-trunc, first-malformed, first-iter0 (iteration count 0), final-zerokey (computed with an all-zero salted password), final-blank (\"v=\"), final-ok, final-prev (valid for the previous, abandoned exchange), final-other, final-empty, empty, junk, 235, 535} for SCRAM-SHA-256, SCRAM-SHA-1, SCRAM-SHA-256-PLUS over TLS 1.3, SCRAM-SHA-1-PLUS over TLS 1.2 (thorough: both PLUS variants over both TLS versions), half of the variants through mail.Client.DialWithContext and half through smtp.Client.Auth called directly; sequences that continue after 235/535 are counted as duplicates of their prefix; non-trivial = an AUTH exchange took place; distinct = distinct (mechanism, TLS version, sequence of messages actually played, outcome)",
		Assumptions: []string{"the adversary's 'valid' messages are computed by the reference SCRAM implementation (validated on the RFC 5802/7677 vectors at start-up) from the real password; all other messages are computable without it",
			"server-final messages are delivered as 334 challenges followed by 235, as SMTP servers do (RFC 4954 has no data in the 235 reply)"},
		Real:        []string{"go-mail smtp.Client.Auth, scramAuth (all four variants), Client.DialWithContext, channel-binding derivation", "crypto/tls on both ends for the PLUS variants"},
		Stubbed:     []string{"TCP", "SMTP server with scripted SCRAM adversary", "clock", "crypto/rand (seeded)"},
		Exhaustive:  func(string) bool { return true },
		QuickBudget: 100 * time.Second, ThoroughBudget: 25 * time.Minute,
	}
}
