package props

import (
	"bytes"
	"fmt"
	"regexp"
	"strings"
	"testing"
	"time"

	"verif/sim/refsmtpd"
	"verif/sim/sim"
)

// C03 — The server only ever commits complete messages; IsDelivered tells the truth.
//
// Workload: batches of 1..4 generated messages with instrumented producers, sent with Send or
// DialAndSend. Faults, placed inside operations with in-flight state: a producer failing before
// its first byte / in the middle / after its last byte; a transport fault (connection reset,
// failing write, peer stops reading) at a client→server offset of a chosen class (before DATA,
// first content byte, inside the top headers, inside a part header, inside a body, just before
// the closing boundary, inside <CRLF>.<CRLF>, after it); scripted replies {4yz, 5yz, disconnect,
// reply-then-close} at MAIL/RCPT/DATA/end-of-data/RSET/NOOP. The byte layout needed to place a
// transport fault is learnt from a fault-free probe execution of the same scenario.

type C03Scenario struct {
	SendScenario
	// Transport fault: Kind "" | reset | write_fail | stall ; placed in message Msg (index into
	// the first batch) at class Class with fraction Frac/1000 inside the class's byte range.
	TKind  string `json:"tkind,omitempty"`
	TMsg   int    `json:"tmsg,omitempty"`
	TClass string `json:"tclass,omitempty"`
	TFrac  int    `json:"tfrac,omitempty"`
	// FaultFree: the control group — nothing is injected (the server may be slow, but answers
	// every command well within the timeout): every call succeeds, every message is delivered.
	FaultFree bool `json:"faultFree,omitempty"`
}

type c03 struct{}

func init() { register(&c03{}) }

func (*c03) ID() string                     { return "C03" }
func (*c03) Level() string                  { return "exploration" }
func (*c03) Decode(raw []byte) (any, error) { return decodeInto[C03Scenario](raw) }

var c03Classes = []string{"before-data", "content-first", "in-headers", "part-header", "in-body", "before-closing", "in-terminator", "after-terminator"}
var c03Replies = []refsmtpd.Action{{Code: 451, Text: "try later"}, {Code: 550, Text: "refused"}, {Kind: "drop"}, {Kind: "close-after", Code: 421, Text: "going down"}, {Code: 250, Text: "accepted"},
	{Code: 250, Text: "accepted but the reply is lost", StallWhere: "start"}, {Code: 250, Text: "accepted but the reply is cut", StallWhere: "mid"},
	// well-formed replies of the classes that mean neither yes nor no at that point
	{Code: 354, Text: "go ahead"}, {Code: 150, Text: "hold on"}}

func (p *c03) Gen(seed uint64, i int, tier string) (any, bool) {
	n := 24000
	if tier == "thorough" {
		n = 1500000
	}
	if i >= n {
		return nil, false
	}
	r := sim.NewRand(sim.Derive(seed, 3, uint64(i)))
	sc := &C03Scenario{}
	sc.Sched = sim.Derive(seed, 3, uint64(i), 1)
	sc.Op = sim.Pick(r, []string{"send", "send", "dialandsend"})
	sc.Client = ClientCfg{TLSPolicy: "none", TimeoutMs: 1000 + r.Intn(2000)}
	sc.Server.Caps = []string{"8BITMIME", "ENHANCEDSTATUSCODES"}
	if r.Chance(1, 4) {
		sc.Server.Caps = []string{"8BITMIME"}
	}
	Swarm(r, &sc.Client, &sc.Server.Caps)
	sc.Client.NoNoop = false // the NOOP positions are part of this property's reply scripts
	sc.PreRender = r.Chance(1, 2)
	sc.Server.MultiLine = r.Chance(1, 5)
	shape := DefaultShape
	shape.StableOnly = true
	shape.MaxContent = 300
	// S/MIME-signed messages: every producer runs twice per render (signing pre-render, then
	// the real one), and the signature differs from render to render, so "the complete
	// rendering" is judged on the signed entity
	shape.AllowSMIME = true
	nm := 1 + r.Intn(4)
	var batch []MsgSpec
	for m := 0; m < nm; m++ {
		batch = append(batch, GenMsg(r, fmt.Sprintf("m%dx%d", m, i%997), shape))
	}
	if r.Chance(1, 6) {
		// a nil *Msg somewhere in the batch (skipped by Send; must not shift anybody's error)
		at := r.Intn(len(batch) + 1)
		nb := append([]MsgSpec(nil), batch[:at]...)
		nb = append(nb, MsgSpec{Token: "nil", NoMsg: true})
		batch = append(nb, batch[at:]...)
	}
	sc.Batches = [][]MsgSpec{batch}
	if sc.Op == "dialandsend" && r.Chance(1, 6) {
		// the caller's context ends while a message is on its way (the context governs the
		// dial; what is being sent is sent completely or reported as failed)
		sc.CancelMidContent = true
	}
	if sc.Op == "send" && r.Chance(1, 5) {
		sc.Batches = append(sc.Batches, []MsgSpec{GenMsg(r, fmt.Sprintf("n0x%d", i%997), shape)})
	}
	// swarm: which fault kinds are enabled in this run
	useProducer, useTransport, useReplies := r.Chance(1, 2), r.Chance(1, 3), r.Chance(1, 2)
	if i%16 == 0 {
		useProducer, useTransport, useReplies = false, false, false // fault-free control
		sc.FaultFree = true
		if r.Chance(1, 2) {
			// a healthy but slow server (or a healthy producer that pauses mid-content for 50..80 % of the timeout): every reply takes a twelfth of the client's timeout, so
			// each step is well inside it while a batch as a whole is not
			sc.Server.ReplyDelayNs = int64(sc.Client.TimeoutMs) * int64(time.Millisecond) / 12
		} else if i%32 == 0 {
			// a healthy but slow producer: half-way through its content it waits for 50..80 %
			// of the client's timeout
			sc.SlowProducerMs = sc.Client.TimeoutMs * (50 + int(sc.Sched%31)) / 100
		}
	}
	if useProducer {
		for k, tries := 0, 0; k < 1+r.Intn(2) && tries < 10; tries++ {
			mi := r.Intn(len(sc.Batches[0]))
			m := &sc.Batches[0][mi]
			if m.NoMsg || m.producerCount() == 0 {
				continue
			}
			j := r.Intn(m.producerCount())
			if !m.canFail(j) {
				continue
			}
			c := m.contentAt(j)
			c.Fail = true
			c.ErrKind = sim.Pick(r, ErrKinds)
			if r.Chance(1, 2) {
				// the producer fails the first time only; the caller then retries the message
				c.FailOnCall = 1
				sc.Resend = true
			}
			switch r.Intn(3) {
			case 0:
				c.FailAt = 0
			case 1:
				c.FailAt = len(c.Data) / 2
			default:
				c.FailAt = len(c.Data)
			}
			k++
		}
	}
	if useTransport {
		sc.TKind = sim.Pick(r, []string{"reset", "write_fail", "stall"})
		sc.TMsg = r.Intn(nm)
		sc.TClass = sim.Pick(r, c03Classes)
		sc.TFrac = r.Intn(1000)
		sc.Conn.Window = sim.Pick(r, []int{0, 0, 512, 4096})
	}
	if useReplies {
		verbs := []string{"MAIL", "RCPT", "DATA", "EOD", "RSET", "NOOP", "EOD", "EOD"}
		for k := 0; k < 1+r.Intn(3); k++ {
			sc.Server.Rules = append(sc.Server.Rules, refsmtpd.Rule{Verb: sim.Pick(r, verbs), Nth: 1 + r.Intn(nm+1), Action: sim.Pick(r, c03Replies)})
		}
		if i%8 == 3 {
			// the end-of-data of one message is acknowledged with a 2yz reply other than 250: the
			// server has taken the message
			sc.Server.Rules = append(sc.Server.Rules, refsmtpd.Rule{Verb: "EOD", Nth: 1 + i/8%(nm+1),
				Action: refsmtpd.Action{Code: []int{251, 252, 200, 299, 220}[i/8%5], Text: "message taken"}})
		}
	}
	sc.Conn.SegMode = r.Intn(3)
	sc.Conn.MaxSeg = 1 + r.Intn(200)
	return sc, true
}

// layout of one message's DATA content in the client→server byte stream
type dataLayout struct {
	cmdStart, start, hdrEnd, end int // end = offset of the terminating "\r\n.\r\n"
	partHdr, closing             int // -1 if absent
}

func findLayouts(c2s []byte) []dataLayout {
	var out []dataLayout
	pos := 0
	for {
		i := bytes.Index(c2s[pos:], []byte("\r\nDATA\r\n"))
		if i < 0 {
			return out
		}
		cmd := pos + i + 2
		start := cmd + len("DATA\r\n")
		j := bytes.Index(c2s[start:], []byte("\r\n.\r\n"))
		if j < 0 {
			return out
		}
		end := start + j
		l := dataLayout{cmdStart: cmd, start: start, end: end, partHdr: -1, closing: -1}
		if k := bytes.Index(c2s[start:end], []byte("\r\n\r\n")); k >= 0 {
			l.hdrEnd = start + k + 2
		} else {
			l.hdrEnd = end
		}
		body := c2s[l.hdrEnd:end]
		if k := bytes.Index(body, []byte("\r\n--")); k >= 0 {
			if m := bytes.Index(body[k+4:], []byte("\r\nContent-")); m >= 0 {
				l.partHdr = l.hdrEnd + k + 4 + m + 2
			}
		}
		if k := bytes.LastIndex(body, []byte("\r\n--")); k >= 0 {
			l.closing = l.hdrEnd + k
		}
		out = append(out, l)
		pos = end + 5
	}
}

func (sc *C03Scenario) faultOffset(ls []dataLayout) (int64, bool) {
	if sc.TMsg >= len(ls) {
		return 0, false
	}
	l := ls[sc.TMsg]
	span := func(a, b int) int64 {
		if b <= a {
			return int64(a)
		}
		return int64(a + (b-a)*sc.TFrac/1000)
	}
	switch sc.TClass {
	case "before-data":
		return span(0, l.cmdStart+4), true
	case "content-first":
		return int64(l.start), true
	case "in-headers":
		return span(l.start, l.hdrEnd), true
	case "part-header":
		if l.partHdr < 0 {
			return span(l.hdrEnd, l.end), true
		}
		return int64(l.partHdr + sc.TFrac%24), true
	case "in-body":
		return span(l.hdrEnd, l.end), true
	case "before-closing":
		if l.closing < 0 {
			return int64(l.end - 1), true
		}
		return int64(l.closing + sc.TFrac%6), true
	case "in-terminator":
		return int64(l.end + sc.TFrac%5), true
	case "after-terminator":
		return int64(l.end + 5), true
	}
	return 0, false
}

var outerBoundaryRe = regexp.MustCompile(`boundary="?[0-9a-f]{40,}"?`)

func canonDot(b []byte) []byte {
	if len(b) == 0 || !bytes.HasSuffix(b, []byte("\r\n")) {
		return append(append([]byte(nil), b...), '\r', '\n')
	}
	return b
}

func (p *c03) Exec(t *testing.T, scAny any) Outcome {
	sc := scAny.(*C03Scenario)
	var out Outcome
	real := sc.SendScenario
	if sc.TKind != "" {
		probe := sc.SendScenario
		probe.Conn.Reset, probe.Conn.WriteFail, probe.Conn.C2SStall = false, false, false
		pr := ExecSend(t, &probe, nil)
		if pr.Infra != "" {
			out.Infra = "probe: " + pr.Infra
			return out
		}
		if len(pr.Env.Pipes) > 0 {
			if off, ok := sc.faultOffset(findLayouts(pr.Env.Pipes[0].C2S())); ok {
				switch sc.TKind {
				case "reset":
					real.Conn.Reset, real.Conn.ResetAt = true, off
				case "write_fail":
					real.Conn.WriteFail, real.Conn.WriteFailAt = true, off
				case "stall":
					real.Conn.C2SStall, real.Conn.C2SStallAt = true, off
				}
				out.stat("probe.fault-placed."+sc.TClass, 1)
			} else {
				out.stat("probe.fault-not-placeable", 1)
			}
		}
	}
	run := ExecSend(t, &real, nil)
	run.fill(&out)
	if out.Infra != "" {
		return out
	}
	for _, c := range run.Env.Calls {
		if c.Panic != nil {
			out.violate("C03:panic:"+c.Name, "%s panicked: %v\n%s", c.Name, c.Panic, c.PanicStack)
		}
		if !c.Returned {
			out.stat("not-judged.call-did-not-return", 1)
			return out
		}
	}
	if len(run.States) == 0 {
		out.stat("not-judged.no-send", 1)
		return out
	}
	h := run.Env.Srv.H
	type mref struct {
		b      *Built
		st     MsgState
		refs   [][]byte
		token  string
		fired  bool
		rcpts  []string
		sender string
	}
	msgs := map[string]*mref{}
	var order []string
	for bi, bs := range run.Built {
		for mi, b := range bs {
			if b.Msg == nil {
				continue
			}
			m := &mref{b: b, st: run.States[bi][mi], token: b.Spec.Token, fired: b.AnyFired()}
			if run.Post != nil && run.PostErr[bi][mi] == nil {
				m.refs = append(m.refs, canonDot(run.Post[bi][mi]))
			}
			if run.Pre != nil {
				m.refs = append(m.refs, canonDot(run.Pre[bi][mi]))
			}
			m.sender = addrOf(b.Spec.From)
			for _, l := range [][]string{b.Spec.To, b.Spec.Cc, b.Spec.Bcc} {
				for _, a := range l {
					m.rcpts = append(m.rcpts, addrOf(a))
				}
			}
			msgs[m.token] = m
			order = append(order, m.token)
		}
	}
	commits := map[string]int{}      // commits during the first operation
	recommits := map[string]int{}    // commits during the retry
	resendFrom := int(^uint(0) >> 1) // kernel step at which the retry started
	if run.SlowProducerFired {
		out.stat("probe.slow-producer-paused-mid-content", 1)
	}
	if run.ResendCall != nil {
		resendFrom = run.ResendCall.StartStep
		out.stat("probe.failed-messages-resent", len(run.Resent))
	}
	for _, c := range h.Commits {
		tok := strings.TrimPrefix(c.From.Local, "sender-")
		m := msgs[tok]
		if m == nil {
			out.violate("C03:commit-unknown-envelope", "the server committed a message with envelope sender %q, which belongs to no message of the batch", c.From.Raw)
			continue
		}
		if c.Step >= resendFrom {
			recommits[tok]++
		} else {
			commits[tok]++
		}
		match := false
		for _, ref := range m.refs {
			if bytes.Equal(c.Content, ref) {
				match = true
			}
			if m.b.Spec.SMIME != "" {
				// same header block, same signed entity, and a signature part after it
				ce, ok1 := signedEntity(c.Content)
				re, ok2 := signedEntity(ref)
				ch, _ := splitEntity(c.Content)
				rh, _ := splitEntity(ref)
				// (the boundary of the outer multipart/signed is drawn anew by every render)
				ch, rh = outerBoundaryRe.ReplaceAll(ch, []byte("boundary=X")), outerBoundaryRe.ReplaceAll(rh, []byte("boundary=X"))
				if ok1 && ok2 && bytes.Equal(ce, re) && bytes.Equal(ch, rh) && bytes.Contains(c.Content, []byte("application/pkcs7-signature")) &&
					bytes.HasSuffix(bytes.TrimRight(c.Content, "\r\n"), []byte("--")) {
					match = true
				}
			}
		}
		if !match {
			why := "differs"
			for _, ref := range m.refs {
				if len(c.Content) < len(ref) && bytes.HasPrefix(ref, bytes.TrimSuffix(c.Content, []byte("\r\n"))) {
					why = "truncated"
				}
			}
			if len(m.refs) == 0 {
				why = "no-reference"
			}
			for _, o := range order {
				if o != tok && bytes.Contains(c.Content, []byte(o)) {
					why = "mixture"
				}
			}
			reflen := -1
			if len(m.refs) > 0 {
				reflen = len(m.refs[0])
			}
			out.violate("C03:commit-not-a-complete-rendering:"+why,
				"the server accepted %d bytes at end-of-data for message %s, which is not the complete rendering of that message (%d bytes): %s; producer failed during the send: %v; tail of what was committed: %q",
				len(c.Content), tok, reflen, why, m.fired, tail(c.Content, 80))
		}
		var got []string
		for _, rp := range c.Rcpts {
			got = append(got, rp.Mailbox())
		}
		if c.From.Mailbox() != m.sender || strings.Join(got, ",") != strings.Join(m.rcpts, ",") {
			out.violate("C03:envelope-mismatch", "message %s committed with envelope %s -> %v, want %s -> %v", tok, c.From.Mailbox(), got, m.sender, m.rcpts)
		}
	}
	for tok, n := range commits {
		if n > 1 {
			out.violate("C03:committed-twice", "message %s was committed %d times in one call", tok, n)
		}
	}
	for tok, n := range recommits {
		if n > 1 {
			out.violate("C03:committed-twice", "message %s was committed %d times in the retry call", tok, n)
		}
	}
	// IsDelivered vs. the server's verdict
	deliveredOn := func(conn int) int64 {
		if conn >= 1 && conn <= len(run.Env.Pipes) {
			return run.Env.Pipes[conn-1].S2CDelivered()
		}
		return 0
	}
	for _, tok := range order {
		m := msgs[tok]
		anyAck, ackSeen := false, false
		var last *refsmtpd.EOD
		for i := range h.EODs {
			e := &h.EODs[i]
			if strings.TrimPrefix(e.From.Local, "sender-") != tok {
				continue
			}
			last = e
			if e.Replied && e.Code/100 == 2 {
				anyAck = true
				if e.EndOff <= deliveredOn(e.Conn) {
					ackSeen = true
				} else {
					out.stat("probe.reply-lost-after-commit", 1)
				}
			}
		}
		if m.st.Delivered && !anyAck {
			what := "the server never saw its end-of-data"
			if last != nil {
				what = fmt.Sprintf("the server answered its end-of-data with %d (replied: %v)", last.Code, last.Replied)
			}
			out.violate("C03:delivered-without-2yz", "message %s reports IsDelivered()==true but %s", tok, what)
		}
		if ackSeen && !m.st.Delivered {
			out.violate("C03:acknowledged-but-not-delivered", "the server acknowledged the end-of-data of message %s with 2yz and the client received that reply completely, but IsDelivered()==false (error: %s)", tok, m.st.ErrText)
		}
		if m.fired {
			out.stat("fault.fired.producer_failure", 1)
			if m.st.Delivered && !run.Resent[tok] {
				out.violate("C03:producer-failed-but-delivered", "a content producer of message %s failed during the send, yet IsDelivered()==true", tok)
			}
			if !m.st.HasErr {
				out.violate("C03:producer-failed-no-error", "a content producer of message %s failed during the send, yet HasSendError()==false", tok)
			}
			if commits[tok] > 0 {
				out.violate("C03:producer-failed-but-committed", "a content producer of message %s failed during the send, yet the server committed a message for it", tok)
			}
			for _, e := range h.Events {
				if e.Kind == "cmd" && e.Verb == "DATA" {
					out.stat("probe.producer-failed-after-354", 1)
					break
				}
			}
		}
	}
	if sc.FaultFree {
		for _, call := range append(append([]*CallRec(nil), run.SendCalls...), run.DialCall) {
			if call != nil && call.Returned && call.Err != nil {
				out.violate("C03:fault-free-run-failed:"+call.Name, "nothing was injected (server reply delay %v, client timeout %v), yet %s returned %v", time.Duration(sc.Server.ReplyDelayNs), sc.Client.timeout(), call.Name, call.Err)
			}
		}
		for _, tok := range order {
			if m := msgs[tok]; !m.st.Delivered || m.st.HasErr {
				out.violate("C03:fault-free-run-failed:message", "nothing was injected (server reply delay %v, client timeout %v), yet message %s has IsDelivered()=%v, HasSendError()=%v (%s)", time.Duration(sc.Server.ReplyDelayNs), sc.Client.timeout(), tok, m.st.Delivered, m.st.HasErr, m.st.ErrText)
			}
		}
		if sc.Server.ReplyDelayNs > 0 {
			out.stat("probe.slow-healthy-server", 1)
		}
	}
	nf := 0
	for _, k := range []string{"fault.fired.producer_failure", "fault.fired.reset", "fault.fired.write_fail", "fault.fired.stall_c2s", "fault.fired.reply_4yz", "fault.fired.reply_5yz", "fault.fired.disconnect", "fault.fired.reply_then_close"} {
		if out.Stats[k] > 0 {
			nf++
		}
	}
	out.Nontrivial = nf > 0
	out.Key = fmt.Sprintf("%s|%d|%s|%s|%s|%v|c=%d", sc.Op, len(order), scriptSig(sc.Server.Rules), sc.TKind, sc.TClass, producerSig(sc.Batches), len(h.Commits))
	if nf == 0 {
		out.stat("runs.fault-free", 1)
	} else {
		out.stat("runs.with-fault", 1)
	}
	out.stat("commits", len(h.Commits))
	return out
}

func producerSig(bs [][]MsgSpec) string {
	var b strings.Builder
	for _, batch := range bs {
		for mi := range batch {
			m := &batch[mi]
			for j := 0; j < m.producerCount(); j++ {
				if c := m.contentAt(j); c.Fail {
					pos := "mid"
					if c.FailAt == 0 {
						pos = "start"
					} else if c.FailAt >= len(c.Data) {
						pos = "end"
					}
					fmt.Fprintf(&b, "m%d.p%d@%s;", mi, j, pos)
				}
			}
		}
	}
	return b.String()
}

func tail(b []byte, n int) string {
	if len(b) > n {
		b = b[len(b)-n:]
	}
	return string(b)
}

func (p *c03) Shrink(scAny any) []any {
	sc := scAny.(*C03Scenario)
	var out []any
	cp := func() *C03Scenario {
		c := *sc
		c.Batches = nil
		for _, b := range sc.Batches {
			var nb []MsgSpec
			for _, m := range b {
				nb = append(nb, m.clone())
			}
			c.Batches = append(c.Batches, nb)
		}
		c.Server.Rules = append([]refsmtpd.Rule(nil), sc.Server.Rules...)
		return &c
	}
	if len(sc.Batches) > 1 {
		c := cp()
		c.Batches = c.Batches[:1]
		out = append(out, c)
	}
	if len(sc.Batches[0]) > 1 {
		for i := range sc.Batches[0] {
			c := cp()
			c.Batches[0] = append(c.Batches[0][:i], c.Batches[0][i+1:]...)
			if c.TMsg >= len(c.Batches[0]) {
				c.TMsg = len(c.Batches[0]) - 1
			}
			out = append(out, c)
		}
	}
	for i := range sc.Server.Rules {
		c := cp()
		c.Server.Rules = append(c.Server.Rules[:i], c.Server.Rules[i+1:]...)
		out = append(out, c)
	}
	if sc.TKind != "" {
		c := cp()
		c.TKind = ""
		out = append(out, c)
	}
	for mi := range sc.Batches[0] {
		m := sc.Batches[0][mi]
		for j := 0; j < m.producerCount(); j++ {
			if m.contentAt(j).Fail {
				c := cp()
				c.Batches[0][mi].contentAt(j).Fail = false
				out = append(out, c)
			}
		}
		if len(m.Attach) > 0 {
			c := cp()
			c.Batches[0][mi].Attach = c.Batches[0][mi].Attach[:len(m.Attach)-1]
			out = append(out, c)
		}
		if len(m.Embeds) > 0 {
			c := cp()
			c.Batches[0][mi].Embeds = c.Batches[0][mi].Embeds[:len(m.Embeds)-1]
			out = append(out, c)
		}
		if len(m.Parts) > 1 {
			c := cp()
			c.Batches[0][mi].Parts = c.Batches[0][mi].Parts[:len(m.Parts)-1]
			out = append(out, c)
		}
	}
	if sc.PreRender {
		c := cp()
		c.PreRender = false
		out = append(out, c)
	}
	if sc.Conn.SegMode != 0 {
		c := cp()
		c.Conn.SegMode = 0
		out = append(out, c)
	}
	return out
}

func (p *c03) Info() PropInfo {
	return PropInfo{
		Rule: "seeded search, swarm style: batches of 1..4 generated messages (0..3 alternatives, embeds, attachments; QP/base64/8bit; all file sources; one in six S/MIME-signed) via Send (sometimes two calls) or DialAndSend; per run a random subset of fault kinds is enabled: producer failure {before first byte, mid, after last byte} in up to two producers; one transport fault {reset, failing write, peer stops reading} at a byte offset of a class {before DATA, first content byte, top headers, part header, body, before closing boundary, inside CRLF.CRLF, after it} located by a fault-free probe run; up to three scripted replies {451, 550, disconnect, 421-then-close, 250} at MAIL/RCPT/DATA/end-of-data/RSET/NOOP; every 16th run is fault-free (half of those against a slow but healthy server whose every reply takes a twelfth of the timeout) and must succeed. Non-trivial = at least one fault fired; distinct = distinct (op, batch size, reply script, transport fault kind and class, failing producers and positions, number of commits)",
		Assumptions: []string{"'the complete rendering of one Msg' is the rendering the harness takes itself with healthy producers after (and in half of the runs also before) the call; a CRLF is appended when it does not end in one, as the DATA transport does",
			"IsDelivered()==false is accepted when the server's 2yz reply did not reach the client completely",
			"workload restricted to CRLF line breaks in 8bit content and to shapes whose rendering is repeatable (repeatability is C11's subject)"},
		Real:        []string{"go-mail Client.Send/DialAndSend, Msg.WriteTo and the whole MIME writer, smtp.Client DATA writer", "net/textproto dot-writer"},
		Stubbed:     []string{"TCP (sim.Pipe: window, segmentation, reset, failing write, stall)", "SMTP server (refsmtpd with commit log)", "clock", "crypto/rand"},
		Exhaustive:  func(string) bool { return false },
		QuickBudget: 100 * time.Second, ThoroughBudget: 25 * time.Minute,
	}
}
