package props

import (
	"context"
	"crypto/tls"
	"errors"
	"fmt"
	"net"
	"os"
	"runtime/debug"
	"strings"
	"testing"
	"testing/cryptotest"
	"testing/synctest"
	"time"

	mail "github.com/wneessen/go-mail"

	"verif/sim/refsmtpd"
	"verif/sim/sim"
)

// SMIMEKeys holds the S/MIME test key pairs of /repo/testdata.
type SMIMEKeys struct {
	RSA, ECDSA *tls.Certificate
}

// LoadSMIMEKeys reads the repository's dummy key pairs.
func LoadSMIMEKeys(repo string) (*SMIMEKeys, error) {
	k := &SMIMEKeys{}
	for _, kind := range []string{"rsa", "ecdsa"} {
		c, err := tls.LoadX509KeyPair(repo+"/testdata/dummy-chain-cert-"+kind+".pem", repo+"/testdata/dummy-child-key-"+kind+".pem")
		if err != nil {
			return nil, err
		}
		cc := c
		if kind == "rsa" {
			k.RSA = &cc
		} else {
			k.ECDSA = &cc
		}
	}
	return k, nil
}

// Sign attaches the signer to a message.
func (k *SMIMEKeys) Sign(m *mail.Msg, kind string) error {
	switch kind {
	case "rsa":
		return m.SignWithTLSCertificate(k.RSA)
	case "ecdsa":
		return m.SignWithTLSCertificate(k.ECDSA)
	}
	return fmt.Errorf("unknown smime key %q", kind)
}

// Globals set up once per process (outside any bubble).
var (
	TLSMat   *refsmtpd.TLSMaterial
	SMIME    *SMIMEKeys
	RepoRoot = "/repo"
	// ScratchDir is a per-process directory for temporary files (removed at exit).
	ScratchDir string
)

// LockSeamAll: every simulated run of this process routes lock operations through the kernel
// (set by the worker for properties that are built from the lock-instrumented scratch copy
// without the race detector; C13 installs its hooks itself).
var LockSeamAll bool

// Setup prepares process-wide state. It returns an error for anything that makes verdicts
// untrustworthy (the caller exits 2).
func Setup(tmpDir string) error {
	if err := refsmtpd.SelfTest(); err != nil {
		return fmt.Errorf("reference self-test: %w", err)
	}
	TLSMat = refsmtpd.NewTLSMaterial(tmpDir)
	if r := os.Getenv("VERIF_REPO"); r != "" {
		RepoRoot = r
	}
	k, err := LoadSMIMEKeys(RepoRoot)
	if err != nil {
		return err
	}
	SMIME = k
	return nil
}

// NetEnv is the simulated world of one run.
type NetEnv struct {
	// DialBlocks: the dial function blocks until its context is done (see Dial).
	DialBlocks    bool
	DialBlockedAt int64
	K             *sim.Kernel
	Srv           *refsmtpd.Server
	// Later: servers for the second, third, … connection (the peer may behave differently each
	// time the client dials); connections beyond the list are served by Srv.
	Later  []*refsmtpd.Server
	Pipes  []*sim.Pipe
	Faults []sim.ConnFaults // per connection (index = dial order); the last one repeats
	// DialFail makes the n-th dial (1-based) return an error without opening a connection.
	DialFail int
	Dials    int
	// DialAddrs: network and address of every call of the dial function, in order.
	DialAddrs []string
	// ClientTLS is the config used for implicit TLS by the dial function.
	ImplicitTLS bool
	Host        string
	// Timing of public calls, filled by Call.
	Calls []CallRec
}

// CallRec is the record of one public API call of the client task.
type CallRec struct {
	Name       string
	StartNs    int64
	EndNs      int64
	StartStep  int
	EndStep    int
	Err        error
	Returned   bool
	Panic      any
	PanicStack string
}

// Dial is the mail.DialContextFunc of the simulation.
func (e *NetEnv) Dial(ctx context.Context, network, addr string) (net.Conn, error) {
	e.Dials++
	e.DialAddrs = append(e.DialAddrs, network+"!"+addr)
	if ctx != nil {
		if err := ctx.Err(); err != nil {
			return nil, &net.OpError{Op: "dial", Net: network, Err: err}
		}
	}
	if e.DialBlocks {
		// a dial function that negotiates before it returns (a TLS or proxy dialer) against a
		// peer that never answers: it comes back when its context says so, and only then
		e.DialBlockedAt = e.K.Now()
		<-ctx.Done()
		return nil, &net.OpError{Op: "dial", Net: network, Err: ctx.Err()}
	}
	if e.DialFail == e.Dials {
		return nil, &net.OpError{Op: "dial", Net: network, Err: errors.New("simulated dial failure")}
	}
	var f sim.ConnFaults
	if n := len(e.Faults); n > 0 {
		if e.Dials-1 < n {
			f = e.Faults[e.Dials-1]
		} else {
			f = e.Faults[n-1]
		}
	}
	p := sim.NewPipe(e.K, len(e.Pipes)+1, f)
	e.Pipes = append(e.Pipes, p)
	srv := e.ServerOf(p.ID)
	e.K.GoDaemon(fmt.Sprintf("server-%d", p.ID), func() { srv.Serve(p) })
	if e.ImplicitTLS {
		host := e.Host
		if host == "" {
			host = "mx.sim.example"
		}
		return tls.Client(p.Client, &tls.Config{ServerName: host, MinVersion: tls.VersionTLS12}), nil
	}
	return p.Client, nil
}

// Call runs one public API call of the client and records its virtual start/end time, its error
// and a panic, if any.
func (e *NetEnv) Call(name string, f func() error) (rec *CallRec) {
	e.Calls = append(e.Calls, CallRec{Name: name, StartNs: e.K.Now(), StartStep: e.K.Steps})
	idx := len(e.Calls) - 1
	defer func() {
		r := &e.Calls[idx]
		if p := recover(); p != nil {
			r.Panic = p
			r.PanicStack = string(debug.Stack())
		}
		r.EndNs = e.K.Now()
		r.EndStep = e.K.Steps
		r.Returned = !e.K.Aborting()
		rec = r
	}()
	e.Calls[idx].Err = f()
	return
}

// RunResult is what a simulated run reports besides the property-specific findings.
type RunResult struct {
	Verdict    sim.Verdict
	Leaked     int
	Unfinished []string
	Steps      int
	Digest     uint64
	SchedHash  uint64
	VirtualNs  int64
	TaskPanics []string
	BubbleErr  string
	Externals  int
	// Adoptions: goroutines started by the program under test that the kernel took over as tasks.
	Adoptions int
}

// RunSim executes body as the client task of a fresh simulated world inside a fresh bubble.
// setup runs inside the bubble before the kernel starts (create the environment there).
func RunSim(t *testing.T, seed uint64, pol sim.Policy, maxSteps int, horizon time.Duration,
	setup func(k *sim.Kernel) (body func(), freeze func())) (res RunResult) {
	hangTouch()
	t.Run("run", func(t *testing.T) {
		cryptotest.SetGlobalRandom(t, seed)
		defer func() {
			if r := recover(); r != nil {
				res.BubbleErr = fmt.Sprint(r)
			}
		}()
		synctest.Test(t, func(t *testing.T) {
			k := sim.NewKernel(seed, pol)
			if maxSteps > 0 {
				k.MaxSteps = maxSteps
			}
			k.HorizonN = int64(horizon)
			k.Adopt = true
			if sim.RaceEnabled {
				k.MaxIdleJump = 5000
			} else {
				// a task blocked on a timer of the bubble (a context deadline inside a dial
				// function) comes back on its own: give it two virtual minutes
				k.ExternalWait = int64(2 * time.Minute)
				k.ForeignTimers = DialSeam
			}
			body, freeze := setup(k)
			if LockSeamAll {
				// builds whose lock calls go through the kernel (C03): a goroutine of the program
				// under test that wants a lock a parked task holds waits in the kernel, not in
				// the mutex
				installLockHooks(k)
				defer removeLockHooks()
			}
			k.Go("client", body)
			res.Verdict = k.Run()
			res.Steps = k.Steps
			res.Digest = k.Digest()
			res.SchedHash = k.SchedHash()
			res.VirtualNs = k.Now()
			res.Externals = k.Externals
			res.Adoptions = k.Adoptions
			if res.Verdict != sim.AllDone {
				res.Unfinished = k.Unfinished()
				hangNote.Store(fmt.Sprintf("the kernel had already ended the run with verdict %s (unfinished tasks %v) and was waiting for the tasks to unwind", res.Verdict, res.Unfinished))
			}
			if freeze != nil {
				freeze()
			}
			res.Leaked = k.Abort()
			for _, pt := range k.PanickedTasks() {
				res.TaskPanics = append(res.TaskPanics, fmt.Sprintf("%s: %v\n%s", pt.Name, pt.Panic, pt.PanicStack))
			}
		})
	})
	return
}

// errText renders an error for tags and messages.
func errText(err error) string {
	if err == nil {
		return "<nil>"
	}
	return err.Error()
}

func containsAny(s string, subs ...string) bool {
	for _, x := range subs {
		if strings.Contains(s, x) {
			return true
		}
	}
	return false
}

// ServerOf returns the server that serves connection id (1-based).
func (e *NetEnv) ServerOf(id int) *refsmtpd.Server {
	if id >= 2 && id-2 < len(e.Later) {
		return e.Later[id-2]
	}
	return e.Srv
}

// Freeze stops the server history (called before the tasks are unwound in abort mode).
func (e *NetEnv) Freeze() {
	e.Srv.H.Freeze()
	for _, s := range e.Later {
		s.H.Freeze()
	}
}

// RunPlain runs f with deterministic crypto/rand, outside any bubble (render-only properties
// that have no clock, peer or schedule).
func RunPlain(t *testing.T, seed uint64, f func()) (panicked any, stack string) {
	hangTouch()
	t.Run("run", func(t *testing.T) {
		cryptotest.SetGlobalRandom(t, seed)
		// inside a bubble so that time.Now (Date header, S/MIME signing time) is the virtual
		// clock and the render is a pure function of the seed
		synctest.Test(t, func(t *testing.T) {
			defer func() {
				if r := recover(); r != nil {
					panicked = r
					stack = string(debug.Stack())
				}
			}()
			f()
		})
	})
	return
}
