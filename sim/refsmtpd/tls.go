package refsmtpd

import (
	"crypto/ecdsa"
	"crypto/elliptic"
	"crypto/rand"
	"crypto/tls"
	"crypto/x509"
	"crypto/x509/pkix"
	"embed"
	"encoding/pem"
	"math/big"
	"net"
	"os"
	"path/filepath"
	"time"
)

// TLSMaterial is the simulator's PKI: one trusted CA (exported to the client through
// SSL_CERT_FILE so that go-mail's default tls.Config trusts it), a leaf valid for the simulated
// host names, a leaf for another name, and a leaf for the right name from an untrusted issuer.
// Validity starts in 1999 because the bubble's clock starts at 2000-01-01.
type TLSMaterial struct {
	CAPEM     []byte
	Valid     tls.Certificate
	WrongName tls.Certificate
	Untrusted tls.Certificate
	Pool      *x509.CertPool
	Dir       string
}

// ServerNames are the names the valid certificate covers.
var ServerNames = []string{"mx.sim.example", "localhost"}

func mkCert(tmpl, parent *x509.Certificate, pub *ecdsa.PublicKey, signer *ecdsa.PrivateKey) []byte {
	der, err := x509.CreateCertificate(rand.Reader, tmpl, parent, pub, signer)
	if err != nil {
		panic(err)
	}
	return der
}

//go:embed pki/*
var pkiFS embed.FS

// NewTLSMaterial loads the simulator's PKI and points SSL_CERT_FILE/SSL_CERT_DIR at its CA.
// The PKI is a fixed set of files (pki/, generated once with GenerateTLSMaterial): keys and
// certificates that differ from process to process would make byte counts, and with them run
// digests, differ between a run and its replay. Call once per process, outside any bubble and
// before the first TLS handshake.
func NewTLSMaterial(dir string) *TLSMaterial {
	rd := func(n string) []byte {
		b, err := pkiFS.ReadFile("pki/" + n)
		if err != nil {
			panic(err)
		}
		return b
	}
	pair := func(n string) tls.Certificate {
		c, err := tls.X509KeyPair(rd(n+".crt"), rd(n+".key"))
		if err != nil {
			panic(err)
		}
		return c
	}
	m := &TLSMaterial{CAPEM: rd("ca.pem"), Valid: pair("valid"), WrongName: pair("wrongname"), Untrusted: pair("untrusted"), Pool: x509.NewCertPool(), Dir: dir}
	m.Pool.AppendCertsFromPEM(m.CAPEM)
	m.export(dir)
	return m
}

func (m *TLSMaterial) export(dir string) {
	if dir != "" {
		_ = os.MkdirAll(filepath.Join(dir, "empty"), 0o755)
		f := filepath.Join(dir, "simca.pem")
		if err := os.WriteFile(f, m.CAPEM, 0o644); err != nil {
			panic(err)
		}
		os.Setenv("SSL_CERT_FILE", f)
		os.Setenv("SSL_CERT_DIR", filepath.Join(dir, "empty"))
	}
}

// GenerateTLSMaterial creates a fresh PKI (used once to produce the files under pki/).
func GenerateTLSMaterial(dir string) *TLSMaterial {
	nb := time.Date(1999, 1, 1, 0, 0, 0, 0, time.UTC)
	na := time.Date(2099, 1, 1, 0, 0, 0, 0, time.UTC)
	newCA := func(cn string, serial int64) (*x509.Certificate, *ecdsa.PrivateKey, []byte) {
		key, err := ecdsa.GenerateKey(elliptic.P256(), rand.Reader)
		if err != nil {
			panic(err)
		}
		t := &x509.Certificate{SerialNumber: big.NewInt(serial), Subject: pkix.Name{CommonName: cn}, NotBefore: nb, NotAfter: na,
			IsCA: true, BasicConstraintsValid: true, KeyUsage: x509.KeyUsageCertSign | x509.KeyUsageDigitalSignature}
		der := mkCert(t, t, &key.PublicKey, key)
		c, _ := x509.ParseCertificate(der)
		return c, key, der
	}
	leaf := func(ca *x509.Certificate, cakey *ecdsa.PrivateKey, serial int64, names []string, ips []net.IP) tls.Certificate {
		key, err := ecdsa.GenerateKey(elliptic.P256(), rand.Reader)
		if err != nil {
			panic(err)
		}
		t := &x509.Certificate{SerialNumber: big.NewInt(serial), Subject: pkix.Name{CommonName: names[0]}, NotBefore: nb, NotAfter: na,
			DNSNames: names, IPAddresses: ips, KeyUsage: x509.KeyUsageDigitalSignature, ExtKeyUsage: []x509.ExtKeyUsage{x509.ExtKeyUsageServerAuth}}
		der := mkCert(t, ca, &key.PublicKey, cakey)
		return tls.Certificate{Certificate: [][]byte{der}, PrivateKey: key}
	}
	ca, cakey, cader := newCA("sim trusted CA", 1)
	evil, evilkey, _ := newCA("sim untrusted CA", 2)
	ips := []net.IP{net.ParseIP("127.0.0.1"), net.ParseIP("::1")}
	m := &TLSMaterial{
		CAPEM:     pem.EncodeToMemory(&pem.Block{Type: "CERTIFICATE", Bytes: cader}),
		Valid:     leaf(ca, cakey, 10, ServerNames, ips),
		WrongName: leaf(ca, cakey, 11, []string{"other.sim.example"}, nil),
		Untrusted: leaf(evil, evilkey, 12, ServerNames, ips),
		Pool:      x509.NewCertPool(),
		Dir:       dir,
	}
	m.Pool.AddCert(ca)
	if dir != "" {
		_ = os.MkdirAll(filepath.Join(dir, "empty"), 0o755)
		f := filepath.Join(dir, "simca.pem")
		if err := os.WriteFile(f, m.CAPEM, 0o644); err != nil {
			panic(err)
		}
		os.Setenv("SSL_CERT_FILE", f)
		os.Setenv("SSL_CERT_DIR", filepath.Join(dir, "empty"))
	}
	return m
}

func (s *Session) startTLS() bool {
	cfg := s.srv.Cfg.TLS
	tm := s.srv.TLSC
	if tm == nil {
		s.ev(Event{Kind: "tls", Text: "fail: no TLS material"})
		return false
	}
	switch cfg.Cert {
	case "garbage":
		s.ev(Event{Kind: "tls", Text: "garbage instead of handshake"})
		_, _ = s.raw.Write([]byte("this is not a TLS record, it is plain junk from the server\r\n"))
		buf := make([]byte, 4096)
		for {
			if _, err := s.raw.Read(buf); err != nil {
				return false
			}
		}
	case "stall":
		s.ev(Event{Kind: "tls", Text: "stall instead of handshake"})
		s.stalled = true
		buf := make([]byte, 4096)
		for {
			if _, err := s.raw.Read(buf); err != nil {
				return false
			}
		}
	}
	cert := tm.Valid
	switch cfg.Cert {
	case "wrongname":
		cert = tm.WrongName
	case "untrusted":
		cert = tm.Untrusted
	}
	tc := &tls.Config{Certificates: []tls.Certificate{cert}, MinVersion: tls.VersionTLS12}
	// one ticket key for all connections of the server: a client that keeps sessions resumes
	tc.SetSessionTicketKeys([][32]byte{{'s', 'i', 'm', '-', 't', 'i', 'c', 'k', 'e', 't', '-', 'k', 'e', 'y'}})
	switch cfg.Version {
	case "1.2":
		tc.MaxVersion = tls.VersionTLS12
	case "1.3":
		tc.MinVersion = tls.VersionTLS13
	}
	conn := tls.Server(s.raw, tc)
	s.ev(Event{Kind: "tls", Text: "handshake start", Line: cfg.Cert})
	if err := conn.Handshake(); err != nil {
		s.ev(Event{Kind: "tls", Text: "handshake fail: " + err.Error()})
		return false
	}
	st := conn.ConnectionState()
	s.conn = conn
	s.TLS = true
	s.TLSState = &st
	s.helloed, s.esmtp, s.ext, s.tx = false, false, nil, nil
	how := "handshake ok"
	if st.DidResume {
		how = "handshake ok (session resumed)"
	}
	s.ev(Event{Kind: "tls", Text: how, Line: tls.VersionName(st.Version)})
	return true
}
