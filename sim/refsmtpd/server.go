package refsmtpd

import (
	"bytes"
	"crypto/tls"
	"encoding/base64"
	"fmt"
	"io"
	"net"
	"strings"
	"sync"
	"time"

	"verif/sim/sim"
)

// Action is what the server does instead of its default reply.
type Action struct {
	Kind   string `json:"kind,omitempty"` // "reply" (default) | "drop" | "stall" | "drip" | "close-after" | "garbage"
	Code   int    `json:"code,omitempty"`
	Enh    string `json:"enh,omitempty"`  // enhanced status code put at the start of the text
	Text   string `json:"text,omitempty"` // "\n" separates lines of a multi-line reply
	DripNs int64  `json:"dripNs,omitempty"`
	// StallWhere, if set, makes the network go dead towards the client at a byte position
	// relative to this reply: "start" (nothing of the reply arrives), "mid" (half of it), "end"
	// (the reply arrives, plus StallExtra bytes of whatever the server sends next). The server
	// itself carries on as if nothing had happened.
	StallWhere string `json:"stallWhere,omitempty"`
	StallExtra int64  `json:"stallExtra,omitempty"`
	// StopReading: once this reply is out the server never reads another byte (the connection
	// stays open; the client's writes fill the send window and then block)
	StopReading bool `json:"stopReading,omitempty"`
	// ResetNext: once this reply is out, the next byte the client writes meets a connection
	// reset (the reply itself still arrives)
	ResetNext bool `json:"resetNext,omitempty"`
	// Bare: the first line of the reply is nothing but the enhanced status code (Enh must be
	// set): "550 5.1.1", or "451-4.7.1" followed by the remaining lines of Text. A single-line
	// Text is dropped altogether.
	Bare bool `json:"bare,omitempty"`
	// DelayMs: the reply (whatever it is) goes out this much later than usual; the server is
	// slow, not dead.
	DelayMs int `json:"delayMs,omitempty"`
	// StrayLine: a line that is not an SMTP reply goes out directly in front of the reply (a
	// banner or debug line of a middlebox); the reply itself is what it would have been.
	StrayLine bool `json:"strayLine,omitempty"`
}

// Rule attaches an Action to the Nth occurrence (1-based; 0 = every) of a command on a connection.
// Verbs: GREET EHLO HELO STARTTLS AUTH AUTHRESP NOOP MAIL RCPT DATA EOD RSET QUIT.
type Rule struct {
	Verb string `json:"verb"`
	Nth  int    `json:"nth,omitempty"`
	Conn int    `json:"conn,omitempty"` // 0 = any connection, else 1-based connection index
	// LineContains, if set, restricts the rule to command lines containing this text (Nth then
	// counts matching lines only when NthOfMatch is set; by default Nth still counts all lines
	// of the verb)
	LineContains string `json:"lineContains,omitempty"`
	// FromContains, if set, restricts the rule to commands given inside a mail transaction whose
	// reverse-path contains this text
	FromContains string `json:"fromContains,omitempty"`
	Action
}

// TLSCfg selects the server's TLS behaviour.
type TLSCfg struct {
	Cert    string `json:"cert,omitempty"`    // "valid" | "wrongname" | "untrusted" | "garbage" | "stall"
	Version string `json:"version,omitempty"` // "1.2" | "1.3" | "" (any)
}

// Config of the reference server.
type Config struct {
	Hostname   string   `json:"hostname,omitempty"`
	Caps       []string `json:"caps"`              // EHLO keyword lines, e.g. "8BITMIME", "AUTH PLAIN LOGIN"
	CapsTLS    []string `json:"capsTLS,omitempty"` // after STARTTLS; nil: Caps without STARTTLS
	UseCapsTLS bool     `json:"useCapsTLS,omitempty"`
	NoEHLO     bool     `json:"noEHLO,omitempty"` // EHLO is answered 502
	// MultiLine: default (unscripted) positive replies are sent as legal two-line replies
	// ("250-...<CRLF>250 ...").
	MultiLine    bool    `json:"multiLine,omitempty"`
	ImplicitTLS  bool    `json:"implicitTLS,omitempty"`
	TLS          TLSCfg  `json:"tls,omitempty"`
	Auth         AuthCfg `json:"auth,omitempty"`
	Rules        []Rule  `json:"rules,omitempty"`
	ReplyDelayNs int64   `json:"replyDelayNs,omitempty"`
	GreetDelayNs int64   `json:"greetDelayNs,omitempty"`
}

// Event is one entry of the server's history.
type Event struct {
	Seq     int    `json:"seq"`
	Step    int    `json:"step"` // kernel step
	Conn    int    `json:"conn"`
	Kind    string `json:"kind"` // cmd | reply | obs | commit | data | close | tls | auth
	Verb    string `json:"verb,omitempty"`
	Nth     int    `json:"nth,omitempty"`
	Line    string `json:"line,omitempty"`
	Cmd     *Cmd   `json:"cmd,omitempty"`
	Code    int    `json:"code,omitempty"`
	Enh     string `json:"enh,omitempty"`
	Text    string `json:"text,omitempty"`
	Token   string `json:"token,omitempty"`
	State   string `json:"state,omitempty"`
	TLS     bool   `json:"tls,omitempty"`
	ReplyTo int    `json:"replyTo,omitempty"` // Seq of the command event answered
	EndOff  int64  `json:"endOff,omitempty"`  // server→client stream offset after the reply (plain connections)
	Obs     string `json:"obs,omitempty"`
	Action  string `json:"action,omitempty"`
	TimeNs  int64  `json:"t,omitempty"`
	Ext     string `json:"ext,omitempty"` // extensions in force (latest EHLO reply) when a command arrived
}

// Commit is one message accepted at end-of-data with a 2yz reply.
type Commit struct {
	Seq        int       `json:"seq"`
	Step       int       `json:"step"`
	Conn       int       `json:"conn"`
	From       Path      `json:"from"`
	FromParams []Param   `json:"fromParams,omitempty"`
	Rcpts      []Path    `json:"rcpts"`
	RcptParams [][]Param `json:"rcptParams,omitempty"`
	Content    []byte    `json:"content"`
	Code       int       `json:"code"`
	ReplySeq   int       `json:"replySeq"`
	EndOff     int64     `json:"endOff"`
}

// History is everything the server saw, in one total order.
type History struct {
	mu sync.Mutex
	// Frozen: the run is over (abort mode); nothing that happens while tasks unwind is recorded.
	Frozen  bool
	Events  []Event
	Commits []Commit
	// EODs lists every end-of-data reached, committed or not.
	EODs []EOD
}

// EOD records one end-of-data.
type EOD struct {
	Seq      int    `json:"seq"`
	Conn     int    `json:"conn"`
	Content  []byte `json:"content"`
	Code     int    `json:"code"`
	ReplySeq int    `json:"replySeq"`
	EndOff   int64  `json:"endOff"`
	Replied  bool   `json:"replied"`
	From     Path   `json:"from"`
	Rcpts    []Path `json:"rcpts"`
}

// Freeze stops recording (the run is over).
func (h *History) Freeze() {
	h.mu.Lock()
	h.Frozen = true
	h.mu.Unlock()
}

func (h *History) add(e Event) int {
	h.mu.Lock()
	defer h.mu.Unlock()
	if h.Frozen {
		return 0
	}
	e.Seq = len(h.Events) + 1
	h.Events = append(h.Events, e)
	return e.Seq
}

// Obs returns all protocol observations.
func (h *History) Obs() []Event {
	var out []Event
	for _, e := range h.Events {
		if e.Kind == "obs" {
			out = append(out, e)
		}
	}
	return out
}

// Server is the reference server; one instance serves all connections of a run.
type Server struct {
	Cfg  Config
	K    *sim.Kernel
	H    *History
	TLSC *TLSMaterial
	// AuthFactory, if set, overrides the SASL server for a mechanism (C15's adversary).
	AuthFactory func(mech string, sess *Session) SASLServer
	Adversaries []*adversary
	// LastHonestFinal is the latest server-final message an honest SCRAM server of this Server
	// sent (what an eavesdropper of an earlier session holds).
	LastHonestFinal string
}

// New creates a server.
func New(k *sim.Kernel, cfg Config, tm *TLSMaterial) *Server {
	if cfg.Hostname == "" {
		cfg.Hostname = "mx.sim.example"
	}
	return &Server{Cfg: cfg, K: k, H: &History{}, TLSC: tm}
}

// transaction state
type txn struct {
	from       Path
	fromParams []Param
	rcpts      []Path
	rcptParams [][]Param
	rejected   int // number of RCPT commands answered 4yz/5yz in this transaction
	mailSeq    int
}

// Session is the per-connection automaton.
type Session struct {
	srv              *Server
	ID               int
	pipe             *sim.Pipe
	raw              net.Conn // the simulated end
	conn             net.Conn // raw or TLS
	rbuf             []byte
	greeted          bool
	helloed          bool
	esmtp            bool
	ext              []string // advertised in the latest EHLO reply (keywords, upper case)
	tx               *txn
	TLS              bool
	TLSState         *tls.ConnectionState
	authed           bool
	counts           map[string]int
	stalled          bool
	closed           bool
	mailUTF8         bool
	stallAfterWrite  int64
	lastAuth         bool   // the previous command was an AUTH exchange
	lastAuthResp     string // the last SASL response line received (EchoOnCancel)
	quitSeen         bool   // the client has said QUIT on this connection (whatever was answered)
	challengePending bool   // a scripted 334 went out and has not been answered yet
	curLine          string
}

func (s *Session) state() string {
	switch {
	case s.closed:
		return "closed"
	case !s.greeted:
		return "pre-greeting"
	case !s.helloed:
		return "greeted"
	case s.tx == nil:
		return "ready"
	case len(s.tx.rcpts) == 0 && s.tx.rejected == 0:
		return "mail"
	default:
		return "rcpt"
	}
}

func (s *Session) ev(e Event) int {
	e.Conn = s.ID
	e.Step = s.srv.K.Steps
	e.TimeNs = s.srv.K.Now()
	e.TLS = s.TLS
	if e.State == "" {
		e.State = s.state()
	}
	return s.srv.H.add(e)
}

func (s *Session) obs(tag string, line string) {
	s.ev(Event{Kind: "obs", Obs: tag, Line: line})
}

// HasExt reports whether the keyword is in the latest EHLO reply.
func (s *Session) HasExt(k string) bool {
	for _, e := range s.ext {
		if e == k {
			return true
		}
	}
	return false
}

func (s *Session) rule(verb string) (Action, int, bool) {
	s.counts[verb]++
	n := s.counts[verb]
	for _, r := range s.srv.Cfg.Rules {
		if r.Verb == verb && (r.Nth == 0 || r.Nth == n) && (r.Conn == 0 || r.Conn == s.ID) &&
			(r.LineContains == "" || strings.Contains(s.curLine, r.LineContains)) &&
			(r.FromContains == "" || (s.tx != nil && strings.Contains(s.tx.from.Mailbox(), r.FromContains))) {
			return r.Action, n, true
		}
	}
	return Action{}, n, false
}

// Serve runs one session on the server end of a pipe; it is the body of a kernel task.
func (srv *Server) Serve(p *sim.Pipe) {
	s := &Session{srv: srv, ID: p.ID, pipe: p, raw: p.Server, conn: p.Server, counts: map[string]int{}}
	defer func() {
		if !s.closed {
			s.closed = true
			_ = s.conn.Close()
			if s.conn != s.raw {
				_ = s.raw.Close()
			}
			s.ev(Event{Kind: "close", Text: "server closed"})
		}
	}()
	if srv.Cfg.ImplicitTLS {
		if !s.startTLS() {
			return
		}
	}
	d := srv.Cfg.GreetDelayNs
	if d <= 0 {
		d = int64(300 * time.Microsecond)
		if sim.RaceEnabled {
			d = 2
		}
	}
	srv.K.Sleep(time.Duration(d))
	if !s.TLS && p.Server.Pending() > 0 {
		s.obs("talk-before-greeting", "")
	}
	act, nth, _ := s.rule("GREET")
	if !s.reply(0, "GREET", nth, act, 220, "", srv.Cfg.Hostname+" ESMTP reference server ready") {
		return
	}
	s.greeted = true
	for {
		line, ok := s.readLine()
		if !ok {
			return
		}
		if !s.handle(line) {
			return
		}
	}
}

// readLine returns the next command line without CRLF. It records line-discipline violations.
func (s *Session) readLine() (string, bool) {
	for {
		if i := bytes.IndexByte(s.rbuf, '\n'); i >= 0 {
			line := s.rbuf[:i]
			s.rbuf = s.rbuf[i+1:]
			if len(line) == 0 || line[len(line)-1] != '\r' {
				s.obs("bare-lf", string(line))
			} else {
				line = line[:len(line)-1]
			}
			if bytes.IndexByte(line, '\r') >= 0 {
				s.obs("bare-cr", string(line))
			}
			return string(line), true
		}
		if len(s.rbuf) > 4096 {
			s.obs("line-too-long", string(s.rbuf[:80]))
			return "", false
		}
		buf := make([]byte, 2048)
		n, err := s.conn.Read(buf)
		s.rbuf = append(s.rbuf, buf[:n]...)
		if err != nil && n == 0 {
			if len(s.rbuf) > 0 {
				s.obs("partial-line-at-eof", string(s.rbuf))
			}
			kind := "eof"
			if err != io.EOF {
				kind = err.Error()
			}
			s.ev(Event{Kind: "close", Text: "client: " + kind})
			return "", false
		}
	}
}

func enhFor(code int, verb string) string {
	c := code / 100
	switch verb {
	case "MAIL":
		return fmt.Sprintf("%d.1.0", c)
	case "RCPT":
		return fmt.Sprintf("%d.1.5", c)
	case "EOD", "DATA":
		return fmt.Sprintf("%d.0.0", c)
	case "AUTH", "AUTHRESP":
		return fmt.Sprintf("%d.7.0", c)
	}
	return fmt.Sprintf("%d.0.0", c)
}

// reply sends the scripted or default reply to the command event cmdSeq. It returns false when
// the session is over (drop, stall, write failure).
func (s *Session) reply(cmdSeq int, verb string, nth int, act Action, defCode int, defEnh, defText string) bool {
	code, enh, text := defCode, defEnh, defText
	kind := act.Kind
	if kind == "" {
		kind = "reply"
	}
	if act.Code != 0 {
		code, enh, text = act.Code, act.Enh, act.Text
		if text == "" {
			text = "scripted reply"
		}
	} else if act.Text != "" {
		text = act.Text
	}
	if act.Code == 0 && act.Text == "" && s.srv.Cfg.MultiLine && code/100 == 2 && verb != "EHLO" && verb != "GREET" && verb != "AUTH" && !strings.Contains(text, "\n") {
		text = text + "\n" + "and a second line of the same reply"
	}
	if act.Code == 0 && enh == "" && s.HasExt("ENHANCEDSTATUSCODES") && code >= 200 && verb != "GREET" && verb != "EHLO" && verb != "HELO" && code != 334 && code != 354 {
		enh = enhFor(code, verb)
	}
	switch kind {
	case "drop":
		s.ev(Event{Kind: "reply", Verb: verb, Nth: nth, ReplyTo: cmdSeq, Action: "drop"})
		return false
	case "stall":
		// go silent, keep the connection open, keep reading (and discarding) for ever
		s.ev(Event{Kind: "reply", Verb: verb, Nth: nth, ReplyTo: cmdSeq, Action: "stall"})
		s.stalled = true
		if !s.TLS {
			s.pipe.StallS2CFrom(s.pipe.S2CLen())
		}
		buf := make([]byte, 4096)
		for {
			if _, err := s.conn.Read(buf); err != nil {
				return false
			}
		}
	}
	delay := s.srv.Cfg.ReplyDelayNs
	if delay <= 0 {
		delay = int64(100 * time.Microsecond)
		if sim.RaceEnabled {
			delay = 1
		}
	}
	delay += int64(act.DelayMs) * int64(time.Millisecond)
	s.srv.K.Sleep(time.Duration(delay))
	if !s.TLS && s.pipe.Server.Pending() > 0 && verb != "EOD" && verb != "GREET" {
		s.obs("pipelined-before-reply:"+verb, "")
	}
	seq := s.srv.H.add(Event{}) // reserve the sequence number for the token
	token := fmt.Sprintf("TK%dKT", seq)
	var wire strings.Builder
	var full string
	if kind == "garbage" {
		full = "\x16\x03\x01 not an SMTP reply " + token
		wire.WriteString(full + "\r\n")
	} else if kind == "raw" {
		full = text
		fmt.Fprintf(&wire, "%d %s\r\n", code, text)
	} else {
		lines := strings.Split(text, "\n")
		if act.Bare && enh != "" && len(lines) == 1 {
			lines[0] = ""
		}
		for i, l := range lines {
			if act.Bare && enh != "" && i == 0 {
				sep := " "
				if len(lines) > 1 {
					sep = "-"
				}
				fmt.Fprintf(&wire, "%d%s%s\r\n", code, sep, enh)
				continue
			}
			sep := " "
			if i < len(lines)-1 {
				sep = "-"
			}
			body := l
			if enh != "" {
				body = enh + " " + l
			}
			if verb != "EHLO" || i == 0 {
				body += " " + token
			}
			fmt.Fprintf(&wire, "%d%s%s\r\n", code, sep, body)
		}
		full = text
	}
	if kind == "drip" {
		dt := act.DripNs
		if dt <= 0 {
			dt = int64(time.Second)
		}
		if !s.TLS {
			s.pipe.DripS2CFrom(s.pipe.S2CLen(), dt)
		}
	}
	if act.StallWhere != "" {
		start := s.pipe.S2CLen()
		n := int64(wire.Len())
		switch act.StallWhere {
		case "start":
			s.pipe.StallS2CFrom(start)
		case "mid":
			s.pipe.StallS2CFrom(start + n/2)
		case "end":
			// for TLS the record is longer than the plaintext; "end" then means: this record and
			// StallExtra further bytes
			if s.TLS {
				s.stallAfterWrite = act.StallExtra + 1
			} else {
				s.pipe.StallS2CFrom(start + n + act.StallExtra)
			}
		}
	}
	out := wire.String()
	if act.StrayLine {
		out = "this line is not an SMTP reply\r\n" + out
	}
	_, err := io.WriteString(s.conn, out)
	if code == 334 && (verb == "AUTH" || verb == "AUTHRESP") {
		// a scripted challenge: the next line has to be a SASL response or the cancel line
		s.challengePending = true
	}
	if act.StopReading {
		s.pipe.StallC2SFrom(s.pipe.C2SLen())
	}
	if act.ResetNext {
		s.pipe.ResetC2SFrom(s.pipe.C2SLen())
	}
	if s.stallAfterWrite > 0 {
		s.pipe.StallS2CFrom(s.pipe.S2CLen() + s.stallAfterWrite - 1)
		s.stallAfterWrite = 0
	}
	if act.Bare && enh != "" && !strings.Contains(text, "\n") {
		token, full = "", "" // nothing but the codes went out
	}
	e := Event{Kind: "reply", Verb: verb, Nth: nth, ReplyTo: cmdSeq, Code: code, Enh: enh, Text: full, Token: token, Action: kind, EndOff: s.pipe.S2CLen()}
	e.Conn, e.Step, e.TimeNs, e.TLS, e.State, e.Seq = s.ID, s.srv.K.Steps, s.srv.K.Now(), s.TLS, s.state(), seq
	s.srv.H.mu.Lock()
	// the slot was reserved before the reply went out; after Freeze nothing was reserved (add
	// returns 0) and nothing may be written — the last recorded event stays what it is
	if seq > 0 && seq <= len(s.srv.H.Events) && s.srv.H.Events[seq-1].Kind == "" {
		s.srv.H.Events[seq-1] = e
	}
	s.srv.H.mu.Unlock()
	if err != nil {
		return false
	}
	if kind == "close-after" {
		return false
	}
	return true
}

func keyword(cap string) string {
	k, _, _ := strings.Cut(cap, " ")
	return strings.ToUpper(k)
}

func (s *Session) caps() []string {
	c := s.srv.Cfg.Caps
	if s.TLS {
		if s.srv.Cfg.UseCapsTLS {
			return s.srv.Cfg.CapsTLS
		}
		var out []string
		for _, x := range c {
			if keyword(x) != "STARTTLS" {
				out = append(out, x)
			}
		}
		return out
	}
	return c
}

func (s *Session) handle(line string) bool {
	s.curLine = line
	c := ParseCommand(line)
	act, nth, _ := Action{}, 0, false
	afterAuth := s.lastAuth
	s.lastAuth = false
	if line == "*" {
		s.challengePending = false // the exchange is cancelled
	}
	if line == "*" && afterAuth {
		// The SASL cancel line sent after the exchange already ended with a final reply (net/smtp
		// does this, go-mail inherited it and its test suite pins it). A strict server answers
		// 500; it is recorded under its own name so that properties can decide whether it is
		// theirs to judge.
		cmdSeq := s.ev(Event{Kind: "cmd", Verb: "*", Line: line})
		s.obs("auth-cancel-after-final-reply", line)
		if s.srv.Cfg.Auth.EchoOnCancel && s.lastAuthResp != "" {
			return s.replyRaw(cmdSeq, "*", 0, 334, s.lastAuthResp)
		}
		// servers differ in how they refuse it (500, 501, 502, 503): scriptable as verb "*"
		act, nth, _ := s.rule("*")
		return s.reply(cmdSeq, "*", nth, act, 500, "", "command unrecognized")
	}
	if s.quitSeen && c.Verb != "" {
		// RFC 5321 4.1.1.10: QUIT ends the session from the client's side, whatever the server
		// answered; nothing follows it on this connection
		s.obs("command-after-quit:"+c.Verb, line)
	}
	if c.Verb == "QUIT" {
		s.quitSeen = true
	}
	if s.challengePending {
		s.challengePending = false
		if line != "*" && c.Verb != "" && len(c.Syntax) == 0 {
			s.obs("command-while-challenge-pending:"+c.Verb, line)
		}
	}
	if c.Verb == "" && line != "*" && s.srv.Cfg.Auth.EchoOnCancel {
		// not a command: a SASL response that strayed past the end of the exchange
		s.lastAuthResp = line
		s.lastAuth = afterAuth
	}
	cmdSeq := s.ev(Event{Kind: "cmd", Verb: c.Verb, Line: line, Cmd: &c, Ext: strings.Join(s.ext, ",")})
	for _, sx := range c.Syntax {
		s.obs("syntax:"+sx, line)
	}
	strict := func(code int, text string) bool {
		// what a strict MTA answers to an out-of-order or malformed command
		return s.reply(cmdSeq, c.Verb, 0, Action{}, code, "", text)
	}
	switch c.Verb {
	case "EHLO":
		act, nth, _ = s.rule("EHLO")
		s.tx = nil
		if s.srv.Cfg.NoEHLO && act.Code == 0 && act.Kind == "" {
			return s.reply(cmdSeq, "EHLO", nth, Action{}, 502, "", "command not implemented")
		}
		caps := s.caps()
		text := s.srv.Cfg.Hostname + " greets " + c.Arg
		for _, cp := range caps {
			text += "\n" + cp
		}
		ok := s.reply(cmdSeq, "EHLO", nth, act, 250, "", text)
		if ok && (act.Code == 0 || act.Code/100 == 2) && act.Kind != "garbage" {
			s.helloed, s.esmtp = true, true
			s.ext = nil
			if act.Code == 0 {
				for _, cp := range caps {
					s.ext = append(s.ext, keyword(cp))
				}
			}
		}
		return ok
	case "HELO":
		act, nth, _ = s.rule("HELO")
		s.tx = nil
		ok := s.reply(cmdSeq, "HELO", nth, act, 250, "", s.srv.Cfg.Hostname)
		if ok && (act.Code == 0 || act.Code/100 == 2) {
			s.helloed, s.esmtp = true, false
			s.ext = nil
		}
		return ok
	case "QUIT":
		act, nth, _ = s.rule("QUIT")
		s.reply(cmdSeq, "QUIT", nth, act, 221, "", s.srv.Cfg.Hostname+" closing connection")
		if act.Code == 0 && act.Kind == "" {
			return false
		}
		if act.Code/100 == 2 {
			return false
		}
		return act.Kind == "" || act.Kind == "reply"
	case "NOOP":
		act, nth, _ = s.rule("NOOP")
		return s.reply(cmdSeq, "NOOP", nth, act, 250, "", "OK")
	case "RSET":
		act, nth, _ = s.rule("RSET")
		if !s.helloed {
			// RFC 5321 allows RSET before EHLO; nothing to flag
		}
		ok := s.reply(cmdSeq, "RSET", nth, act, 250, "", "flushed")
		if act.Code == 0 || act.Code/100 == 2 {
			s.tx = nil
		}
		return ok
	case "STARTTLS":
		act, nth, _ = s.rule("STARTTLS")
		if s.TLS {
			s.obs("starttls-inside-tls", line)
			return strict(503, "TLS already active")
		}
		if !s.HasExt("STARTTLS") {
			s.obs("param-not-advertised:STARTTLS", line)
		}
		if !s.reply(cmdSeq, "STARTTLS", nth, act, 220, "", "ready to start TLS") {
			return false
		}
		if act.Code != 0 && act.Code != 220 {
			return true
		}
		if act.Kind == "garbage" {
			return true
		}
		if len(s.rbuf) > 0 {
			s.obs("plaintext-after-starttls", string(s.rbuf))
			s.rbuf = nil
		}
		return s.startTLS()
	case "AUTH":
		s.lastAuth = true
		return s.handleAuth(cmdSeq, c, line)
	case "MAIL":
		act, nth, _ = s.rule("MAIL")
		if !s.helloed {
			s.obs("mail-before-helo", line)
			return strict(503, "send EHLO first")
		}
		if s.tx != nil {
			s.obs("mail-inside-transaction", line)
			return strict(503, "nested MAIL command")
		}
		s.checkMailParams(c, line)
		if len(c.Syntax) > 0 && act.Code == 0 {
			return strict(501, "syntax error in MAIL")
		}
		ok := s.reply(cmdSeq, "MAIL", nth, act, 250, "", "sender ok")
		if (act.Code == 0 || act.Code/100 == 2) && c.Path != nil {
			s.tx = &txn{from: *c.Path, fromParams: c.Params, mailSeq: cmdSeq}
		}
		return ok
	case "RCPT":
		act, nth, _ = s.rule("RCPT")
		if s.tx == nil {
			s.obs("rcpt-without-mail", line)
			return strict(503, "need MAIL before RCPT")
		}
		s.checkRcptParams(c, line)
		if len(c.Syntax) > 0 && act.Code == 0 {
			s.tx.rejected++
			return strict(501, "syntax error in RCPT")
		}
		ok := s.reply(cmdSeq, "RCPT", nth, act, 250, "", "recipient ok")
		if (act.Code == 0 || act.Code/100 == 2) && c.Path != nil {
			s.tx.rcpts = append(s.tx.rcpts, *c.Path)
			s.tx.rcptParams = append(s.tx.rcptParams, c.Params)
		} else {
			s.tx.rejected++
		}
		return ok
	case "DATA":
		act, nth, _ = s.rule("DATA")
		if s.tx == nil {
			s.obs("data-without-mail", line)
			return strict(503, "need MAIL before DATA")
		}
		if len(s.tx.rcpts) == 0 {
			s.obs("data-without-valid-rcpt", line)
			return strict(554, "no valid recipients")
		}
		if s.tx.rejected > 0 {
			s.obs("data-after-rejected-rcpt", line)
		}
		if !s.reply(cmdSeq, "DATA", nth, act, 354, "", "end data with <CR><LF>.<CR><LF>") {
			return false
		}
		if act.Code != 0 && act.Code != 354 {
			// DATA refused: the transaction stays open (RFC 5321 §4.1.4; Postfix answers a
			// following MAIL with "503 nested MAIL command")
			return true
		}
		return s.readData(cmdSeq)
	case "":
		return strict(500, "command unrecognized")
	default:
		return strict(502, "command not implemented")
	}
}

func (s *Session) checkMailParams(c Cmd, line string) {
	s.mailUTF8 = false
	seen := map[string]bool{}
	for _, p := range c.Params {
		if seen[p.Key] {
			s.obs("duplicate-param:"+p.Key, line)
		}
		seen[p.Key] = true
		switch p.Key {
		case "BODY":
			if !s.HasExt("8BITMIME") {
				s.obs("param-not-advertised:BODY", line)
			}
			if v := strings.ToUpper(p.Val); v != "8BITMIME" && v != "7BIT" {
				s.obs("syntax:bad BODY value "+p.Val, line)
			}
		case "SMTPUTF8":
			if !s.HasExt("SMTPUTF8") {
				s.obs("param-not-advertised:SMTPUTF8", line)
			}
			if p.Has {
				s.obs("syntax:SMTPUTF8 takes no value", line)
			}
			s.mailUTF8 = true
		case "RET":
			if !s.HasExt("DSN") {
				s.obs("param-not-advertised:RET", line)
			}
			if v := strings.ToUpper(p.Val); v != "FULL" && v != "HDRS" {
				s.obs("syntax:bad RET value "+p.Val, line)
			}
		case "ENVID":
			if !s.HasExt("DSN") {
				s.obs("param-not-advertised:ENVID", line)
			}
		case "SIZE":
			if !s.HasExt("SIZE") {
				s.obs("param-not-advertised:SIZE", line)
			}
		case "AUTH":
			if !s.HasExt("AUTH") {
				s.obs("param-not-advertised:AUTH", line)
			}
		default:
			s.obs("unknown-mail-param:"+p.Key, line)
		}
	}
	if !s.esmtp && len(c.Params) > 0 {
		s.obs("params-after-helo", line)
	}
	if c.Path != nil && c.Path.UTF8 && !s.mailUTF8 {
		s.obs("utf8-address-without-SMTPUTF8", line)
	}
}

func (s *Session) checkRcptParams(c Cmd, line string) {
	seen := map[string]bool{}
	for _, p := range c.Params {
		if seen[p.Key] {
			s.obs("duplicate-param:"+p.Key, line)
		}
		seen[p.Key] = true
		switch p.Key {
		case "NOTIFY":
			if !s.HasExt("DSN") {
				s.obs("param-not-advertised:NOTIFY", line)
			}
			vals := strings.Split(strings.ToUpper(p.Val), ",")
			for _, v := range vals {
				switch v {
				case "NEVER":
					if len(vals) > 1 {
						s.obs("syntax:NOTIFY=NEVER combined with other values", line)
					}
				case "SUCCESS", "FAILURE", "DELAY":
				default:
					s.obs("syntax:bad NOTIFY value "+v, line)
				}
			}
		case "ORCPT":
			if !s.HasExt("DSN") {
				s.obs("param-not-advertised:ORCPT", line)
			}
		default:
			s.obs("unknown-rcpt-param:"+p.Key, line)
		}
	}
	if !s.esmtp && len(c.Params) > 0 {
		s.obs("params-after-helo", line)
	}
	if c.Path != nil && c.Path.UTF8 && !s.mailUTF8 {
		s.obs("utf8-address-without-SMTPUTF8", line)
	}
}

// readData collects message content up to <CRLF>.<CRLF>, undoing dot-stuffing.
func (s *Session) readData(dataSeq int) bool {
	s.ev(Event{Kind: "data", Text: "begin", ReplyTo: dataSeq})
	var content []byte
	atLineStart := true
	for {
		// process as many complete lines as are buffered
		for {
			i := bytes.IndexByte(s.rbuf, '\n')
			if i < 0 {
				break
			}
			line := s.rbuf[:i+1]
			s.rbuf = s.rbuf[i+1:]
			if atLineStart && (bytes.Equal(line, []byte(".\r\n"))) {
				return s.endOfData(content)
			}
			if atLineStart && len(line) > 0 && line[0] == '.' {
				if bytes.Equal(line, []byte(".\n")) {
					s.obs("data-terminator-with-bare-lf", "")
				}
				line = line[1:]
			}
			content = append(content, line...)
			atLineStart = len(line) >= 2 && line[len(line)-2] == '\r'
			if !atLineStart {
				// bare LF inside content: the next line does not begin after CRLF, so a dot there
				// is not a terminator for a strict server
				atLineStart = false
			}
			if len(content) > 64<<20 {
				s.obs("data-too-large", "")
				return false
			}
		}
		buf := make([]byte, 8192)
		n, err := s.conn.Read(buf)
		s.rbuf = append(s.rbuf, buf[:n]...)
		if err != nil && n == 0 {
			kind := "eof"
			if err != io.EOF {
				kind = err.Error()
			}
			s.ev(Event{Kind: "data", Text: "aborted: client " + kind, Line: fmt.Sprintf("%d bytes received", len(content)+len(s.rbuf))})
			s.ev(Event{Kind: "close", Text: "client: " + kind})
			return false
		}
	}
}

func (s *Session) endOfData(content []byte) bool {
	act, nth, _ := s.rule("EOD")
	tx := s.tx
	eodSeq := s.ev(Event{Kind: "data", Text: "end", Line: fmt.Sprintf("%d bytes", len(content)), State: "data"})
	code := 250
	if act.Code != 0 {
		code = act.Code
	}
	willReply := act.Kind == "" || act.Kind == "reply" || act.Kind == "close-after" || act.Kind == "drip"
	// The message is committed when the server decides to answer 2yz — before the reply is on
	// the wire (a lost reply does not undo the commit).
	s.tx = nil
	idx := -1
	if willReply && code/100 == 2 {
		s.srv.H.mu.Lock()
		s.srv.H.Commits = append(s.srv.H.Commits, Commit{Seq: eodSeq, Step: s.srv.K.Steps, Conn: s.ID, From: tx.from, FromParams: tx.fromParams,
			Rcpts: tx.rcpts, RcptParams: tx.rcptParams, Content: content, Code: code})
		idx = len(s.srv.H.Commits) - 1
		s.srv.H.mu.Unlock()
	}
	s.srv.H.mu.Lock()
	s.srv.H.EODs = append(s.srv.H.EODs, EOD{Seq: eodSeq, Conn: s.ID, Content: content, Code: code, From: tx.from, Rcpts: tx.rcpts})
	eidx := len(s.srv.H.EODs) - 1
	s.srv.H.mu.Unlock()
	ok := s.reply(eodSeq, "EOD", nth, act, 250, "", "queued")
	s.srv.H.mu.Lock()
	last := len(s.srv.H.Events)
	// find the reply event just written
	for i := last - 1; i >= 0; i-- {
		e := s.srv.H.Events[i]
		if e.Kind == "reply" && e.ReplyTo == eodSeq && e.Conn == s.ID {
			s.srv.H.EODs[eidx].ReplySeq = e.Seq
			s.srv.H.EODs[eidx].EndOff = e.EndOff
			s.srv.H.EODs[eidx].Replied = e.Action != "drop" && e.Action != "stall"
			if idx >= 0 {
				s.srv.H.Commits[idx].ReplySeq = e.Seq
				s.srv.H.Commits[idx].EndOff = e.EndOff
			}
			break
		}
	}
	s.srv.H.mu.Unlock()
	return ok
}

func (s *Session) handleAuth(cmdSeq int, c Cmd, line string) bool {
	act, nth, _ := s.rule("AUTH")
	if !s.helloed {
		s.obs("auth-before-helo", line)
		return s.reply(cmdSeq, "AUTH", nth, Action{}, 503, "", "send EHLO first")
	}
	if s.authed {
		s.obs("auth-twice", line)
		return s.reply(cmdSeq, "AUTH", nth, Action{}, 503, "", "already authenticated")
	}
	if s.tx != nil {
		s.obs("auth-inside-transaction", line)
	}
	f := strings.Split(c.Arg, " ")
	mech := strings.ToUpper(f[0])
	advertised, lookalike := false, false
	for _, cp := range s.caps() {
		if keyword(cp) == "AUTH" && s.HasExt("AUTH") {
			for _, m := range strings.Fields(cp)[1:] {
				if strings.ToUpper(m) == mech {
					advertised = true
				} else if strings.Contains(strings.ToUpper(m), mech) {
					lookalike = true
				}
			}
		}
	}
	if !advertised {
		what := "auth-mechanism-not-advertised:" + mech
		if lookalike {
			// another mechanism was announced whose name contains this one's
			what += ":a-longer-name-was-announced"
		}
		s.obs(what, line)
		if s.srv.Cfg.Auth.RefuseUnannounced && act.Code == 0 && act.Kind == "" {
			// a server that only speaks the mechanisms it announced (RFC 4954 section 4: 504)
			return s.reply(cmdSeq, "AUTH", nth, act, 504, "5.5.4", "unrecognized authentication type")
		}
	}
	if act.Code != 0 || act.Kind != "" {
		return s.reply(cmdSeq, "AUTH", nth, act, 535, "", "authentication failed")
	}
	var m SASLServer
	if s.srv.AuthFactory != nil {
		m = s.srv.AuthFactory(mech, s)
	}
	if m == nil {
		m = s.srv.Cfg.Auth.newServer(mech, s)
	}
	if m == nil {
		return s.reply(cmdSeq, "AUTH", nth, Action{}, 504, "", "unrecognized authentication type")
	}
	var resp []byte
	hasResp := false
	if len(f) >= 2 {
		hasResp = true
		if f[1] != "=" {
			b, err := base64.StdEncoding.DecodeString(f[1])
			if err != nil {
				s.obs("auth-bad-base64", line)
				s.ev(Event{Kind: "auth", Verb: mech, Text: "fail: bad base64 in initial response"})
				return s.reply(cmdSeq, "AUTH", nth, Action{}, 501, "", "cannot decode response")
			}
			resp = b
		}
	}
	lastSeq := cmdSeq
	lastResp := ""
	if len(f) >= 2 {
		lastResp = f[1]
	}
	s.lastAuthResp = lastResp
	for step := 0; ; step++ {
		out := m.Step(resp, hasResp)
		if out.Note != "" {
			s.ev(Event{Kind: "auth", Verb: mech, Text: out.Note})
		}
		if out.Hangup {
			s.ev(Event{Kind: "auth", Verb: mech, Text: "fail: server hung up in the middle of the exchange"})
			return false
		}
		if out.Done {
			if out.OK {
				s.authed = true
				s.ev(Event{Kind: "auth", Verb: mech, Text: "success", Line: out.User})
				text := "authentication successful"
				if out.Raw235 != "" {
					text = out.Raw235
				}
				return s.reply(lastSeq, "AUTH", nth, Action{Text: text}, 235, "", text)
			}
			s.ev(Event{Kind: "auth", Verb: mech, Text: "fail: " + out.Reason})
			code := 535
			if out.Code != 0 {
				code = out.Code
			}
			return s.reply(lastSeq, "AUTH", nth, Action{}, code, "", "authentication failed")
		}
		ch := base64.StdEncoding.EncodeToString(out.Challenge)
		if out.RawChallenge != "" {
			ch = out.RawChallenge
		}
		ract, rn, _ := s.rule("AUTHRESP")
		if ract.Code != 0 || ract.Kind != "" {
			return s.reply(lastSeq, "AUTHRESP", rn, ract, 535, "", "authentication failed")
		}
		if !s.replyRaw(lastSeq, "AUTHRESP", rn, 334, ch) {
			return false
		}
		rl, ok := s.readLine()
		if !ok {
			return false
		}
		lastSeq = s.ev(Event{Kind: "cmd", Verb: "AUTHRESP", Line: rl})
		if rl != "*" {
			lastResp = rl
			s.lastAuthResp = rl
		}
		if rl == "*" && s.srv.Cfg.Auth.EchoOnCancel && lastResp != "" {
			s.ev(Event{Kind: "auth", Verb: mech, Text: "cancelled by client, not honoured"})
			m.Cancelled()
			return s.replyRaw(lastSeq, "AUTHRESP", rn, 334, lastResp)
		}
		if rl == "*" {
			s.ev(Event{Kind: "auth", Verb: mech, Text: "cancelled by client"})
			m.Cancelled()
			return s.reply(lastSeq, "AUTHRESP", rn, Action{}, 501, "", "authentication cancelled")
		}
		b, err := base64.StdEncoding.DecodeString(rl)
		if err != nil {
			s.obs("auth-bad-base64", rl)
			s.ev(Event{Kind: "auth", Verb: mech, Text: "fail: bad base64"})
			return s.reply(lastSeq, "AUTHRESP", rn, Action{}, 501, "", "cannot decode response")
		}
		resp, hasResp = b, true
	}
}

// replyRaw sends "code text" with no token and no enhanced code (334 challenges).
func (s *Session) replyRaw(cmdSeq int, verb string, nth int, code int, text string) bool {
	delay := s.srv.Cfg.ReplyDelayNs
	if delay <= 0 {
		delay = int64(100 * time.Microsecond)
		if sim.RaceEnabled {
			delay = 1
		}
	}
	s.srv.K.Sleep(time.Duration(delay))
	_, err := io.WriteString(s.conn, fmt.Sprintf("%d %s\r\n", code, text))
	s.ev(Event{Kind: "reply", Verb: verb, Nth: nth, ReplyTo: cmdSeq, Code: code, Text: text, EndOff: s.pipe.S2CLen()})
	return err == nil
}

// IsZeroToken reports whether the event carries no attribution token.
func (e Event) IsZeroToken() bool { return e.Token == "" }
