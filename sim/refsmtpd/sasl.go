package refsmtpd

import (
	"bytes"
	"crypto/hmac"
	"crypto/md5"
	"crypto/pbkdf2"
	"crypto/sha1"
	"crypto/sha256"
	"crypto/subtle"
	"crypto/tls"
	"encoding/base64"
	"encoding/hex"
	"fmt"
	"hash"
	"strconv"
	"strings"
	"unicode/utf8"
)

// Reference SASL servers, written from RFC 4616 (PLAIN), draft-murchison-sasl-login (LOGIN),
// RFC 2195 (CRAM-MD5), Google's XOAUTH2 description, RFC 5802/7677 (SCRAM-SHA-1/-256) and RFC
// 5929/9266 (tls-unique / tls-exporter). PBKDF2 is the standard library's crypto/pbkdf2, not
// go-mail's internal/pbkdf2. Credentials are compared as byte strings: the workload restricts
// itself to code points on which SASLprep and PRECIS OpaqueString are the identity.

// AuthCfg holds the server-side authentication database and SCRAM parameters of a run.
type AuthCfg struct {
	User          string `json:"user,omitempty"`
	Pass          string `json:"pass,omitempty"`
	Salt          []byte `json:"salt,omitempty"`
	Iter          int    `json:"iter,omitempty"`
	NonceSuffix   string `json:"nonceSuffix,omitempty"`
	CramChallenge string `json:"cramChallenge,omitempty"`
	// RefuseUnannounced: AUTH with a mechanism that the EHLO reply did not announce gets 504.
	RefuseUnannounced bool `json:"refuseUnannounced,omitempty"`
	// Adversary, when non-empty, replaces the honest SCRAM server by a scripted one (C15); each
	// element names one server message of the alphabet documented in sasl_adversary.go.
	Adversary []string `json:"adversary,omitempty"`
	// LoginPrompts: the two challenges of the LOGIN mechanism (default "Username:", "Password:").
	// The mechanism has no specification beyond an expired draft; servers differ in spelling
	// and some repeat a prompt. The answers are positional.
	LoginPrompts []string `json:"loginPrompts,omitempty"`
	// AdversaryFromConn: connections with a lower index get the honest servers (an earlier,
	// regular session of the same or another client), the adversary takes over from this one on.
	AdversaryFromConn int `json:"adversaryFromConn,omitempty"`
	// FirstExt is appended to the honest server-first-message: optional extension attributes
	// after the iteration count (RFC 5802 section 5.1 allows them; a client ignores those it
	// does not know, and the AuthMessage contains the message as it was sent).
	FirstExt string `json:"firstExt,omitempty"`
	// EchoOnCancel: a server that does not honour the client's "*": it answers with another 334
	// whose text is the last response it received (a debugging aid of some test servers; a
	// server may say anything).
	EchoOnCancel bool `json:"echoOnCancel,omitempty"`
	// IterLater > 0: from the second connection on the account's iteration count is this one
	// (the server re-hashed its password store; the salt stayed).
	IterLater int `json:"iterLater,omitempty"`
}

func (a AuthCfg) iterFor(s *Session) int {
	if a.IterLater > 0 && s != nil && s.ID >= 2 {
		return a.IterLater
	}
	return a.Iter
}

func (a AuthCfg) loginPrompt(i int) []byte {
	if len(a.LoginPrompts) == 2 {
		return []byte(a.LoginPrompts[i])
	}
	return []byte([]string{"Username:", "Password:"}[i])
}

// StepOut is the server's reaction to one client response.
type StepOut struct {
	Challenge    []byte
	RawChallenge string // sent verbatim instead of base64(Challenge)
	Done, OK     bool
	Reason       string
	Note         string
	User         string
	Code         int
	Raw235       string
	// Hangup: the server drops the connection instead of answering.
	Hangup bool
}

// SASLServer is one mechanism instance for one exchange.
type SASLServer interface {
	Step(resp []byte, has bool) StepOut
	Cancelled()
}

func (a AuthCfg) newServer(mech string, s *Session) SASLServer {
	if len(a.Adversary) > 0 && strings.HasPrefix(mech, "SCRAM-") && (s == nil || s.ID >= a.AdversaryFromConn) {
		return newAdversary(a, mech, s)
	}
	switch mech {
	case "PLAIN":
		return &plainSrv{a: a}
	case "LOGIN":
		return &loginSrv{a: a}
	case "CRAM-MD5":
		return &cramSrv{a: a}
	case "XOAUTH2":
		return &xoauthSrv{a: a}
	case "SCRAM-SHA-1":
		return &scramSrv{a: a, h: sha1.New, name: mech, sess: s}
	case "SCRAM-SHA-256":
		return &scramSrv{a: a, h: sha256.New, name: mech, sess: s}
	case "SCRAM-SHA-1-PLUS":
		return &scramSrv{a: a, h: sha1.New, name: mech, plus: true, sess: s}
	case "SCRAM-SHA-256-PLUS":
		return &scramSrv{a: a, h: sha256.New, name: mech, plus: true, sess: s}
	}
	return nil
}

func eq(a, b string) bool { return subtle.ConstantTimeCompare([]byte(a), []byte(b)) == 1 }

// ---- PLAIN (RFC 4616) ----

type plainSrv struct {
	a    AuthCfg
	sent bool
}

func (p *plainSrv) Cancelled() {}
func (p *plainSrv) Step(resp []byte, has bool) StepOut {
	if !has {
		if p.sent {
			return StepOut{Done: true, Reason: "no response to empty challenge"}
		}
		p.sent = true
		return StepOut{Challenge: nil}
	}
	// message = [authzid] NUL authcid NUL passwd
	parts := bytes.Split(resp, []byte{0})
	if len(parts) != 3 {
		return StepOut{Done: true, Reason: fmt.Sprintf("PLAIN message has %d NUL-separated fields, want 3", len(parts))}
	}
	if !utf8.Valid(resp) {
		return StepOut{Done: true, Reason: "PLAIN message is not UTF-8"}
	}
	authz, authc, pw := string(parts[0]), string(parts[1]), string(parts[2])
	if authc == "" || pw == "" {
		return StepOut{Done: true, Reason: "empty authcid or passwd (RFC 4616: 1*SAFE)"}
	}
	if authz != "" && authz != authc {
		return StepOut{Done: true, Reason: "authzid differs from authcid"}
	}
	if eq(authc, p.a.User) && eq(pw, p.a.Pass) {
		return StepOut{Done: true, OK: true, User: authc}
	}
	return StepOut{Done: true, Reason: "bad credentials"}
}

// ---- LOGIN ----

type loginSrv struct {
	a    AuthCfg
	step int
	user string
}

func (l *loginSrv) Cancelled() {}
func (l *loginSrv) Step(resp []byte, has bool) StepOut {
	switch l.step {
	case 0:
		l.step = 1
		if has {
			// initial response carries the user name
			l.user = string(resp)
			l.step = 2
			return StepOut{Challenge: l.a.loginPrompt(1)}
		}
		return StepOut{Challenge: l.a.loginPrompt(0)}
	case 1:
		l.user = string(resp)
		l.step = 2
		return StepOut{Challenge: l.a.loginPrompt(1)}
	default:
		if eq(l.user, l.a.User) && eq(string(resp), l.a.Pass) {
			return StepOut{Done: true, OK: true, User: l.user}
		}
		return StepOut{Done: true, Reason: "bad credentials"}
	}
}

// ---- CRAM-MD5 (RFC 2195) ----

type cramSrv struct {
	a    AuthCfg
	sent bool
	ch   string
}

// CramDigest is the RFC 2195 keyed digest in lower-case hex.
func CramDigest(secret, challenge string) string {
	m := hmac.New(md5.New, []byte(secret))
	m.Write([]byte(challenge))
	return hex.EncodeToString(m.Sum(nil))
}

func (c *cramSrv) Cancelled() {}
func (c *cramSrv) Step(resp []byte, has bool) StepOut {
	if !c.sent {
		if has {
			return StepOut{Done: true, Reason: "CRAM-MD5 has no initial response"}
		}
		c.sent = true
		c.ch = c.a.CramChallenge
		if c.ch == "" {
			c.ch = "<1896.697170952@mx.sim.example>"
		}
		return StepOut{Challenge: []byte(c.ch)}
	}
	// response = user SP digest ; the user name may itself contain blanks: the digest is the
	// last blank-separated field (RFC 2195 §2)
	s := string(resp)
	i := strings.LastIndexByte(s, ' ')
	if i < 0 {
		return StepOut{Done: true, Reason: "no blank in CRAM-MD5 response"}
	}
	user, dig := s[:i], s[i+1:]
	if len(dig) != 32 || strings.ToLower(dig) != dig {
		return StepOut{Done: true, Reason: "digest is not 32 lower-case hex digits"}
	}
	if eq(user, c.a.User) && eq(dig, CramDigest(c.a.Pass, c.ch)) {
		return StepOut{Done: true, OK: true, User: user}
	}
	return StepOut{Done: true, Reason: "bad credentials"}
}

// ---- XOAUTH2 ----

type xoauthSrv struct {
	a      AuthCfg
	failed bool
	asked  bool
}

func (x *xoauthSrv) Cancelled() {}
func (x *xoauthSrv) Step(resp []byte, has bool) StepOut {
	if x.failed {
		// the client answered the error challenge (with an empty response); now the 535
		return StepOut{Done: true, Reason: "bad credentials"}
	}
	if !has {
		// RFC 4954 section 4: without an initial response the server asks for it with an empty
		// challenge (once)
		if x.asked {
			return StepOut{Done: true, Reason: "XOAUTH2: no response to the empty challenge"}
		}
		x.asked = true
		return StepOut{Challenge: nil}
	}
	want := "user=" + x.a.User + "\x01auth=Bearer " + x.a.Pass + "\x01\x01"
	s := string(resp)
	ok := strings.HasPrefix(s, "user=") && strings.HasSuffix(s, "\x01\x01") && strings.Count(s, "\x01") >= 3
	if ok && eq(s, want) {
		return StepOut{Done: true, OK: true, User: x.a.User}
	}
	x.failed = true
	return StepOut{Challenge: []byte(`{"status":"401","schemes":"bearer","scope":"https://mail.google.com/"}`)}
}

// ---- SCRAM (RFC 5802, 7677, 5929, 9266) ----

type scramSrv struct {
	a     AuthCfg
	h     func() hash.Hash
	name  string
	plus  bool
	sess  *Session
	step  int
	gs2   string
	cbTyp string
	bare  string
	first string
	nonce string
	// ClientNonce is what the client sent in client-first.
	ClientNonce string
	final       bool
}

func hm(h func() hash.Hash, key, msg []byte) []byte {
	m := hmac.New(h, key)
	m.Write(msg)
	return m.Sum(nil)
}

// ScramKeys derives SaltedPassword, StoredKey and ServerKey.
func ScramKeys(h func() hash.Hash, pass string, salt []byte, iter int) (salted, stored, server []byte) {
	size := h().Size()
	salted, err := pbkdf2.Key(h, pass, salt, iter, size)
	if err != nil {
		panic(err)
	}
	ck := hm(h, salted, []byte("Client Key"))
	hh := h()
	hh.Write(ck)
	stored = hh.Sum(nil)
	server = hm(h, salted, []byte("Server Key"))
	return
}

// ChannelBinding returns the binding data of the given type for a connection state.
func ChannelBinding(st *tls.ConnectionState, typ string) ([]byte, error) {
	if st == nil {
		return nil, fmt.Errorf("no TLS")
	}
	switch typ {
	case "tls-unique":
		if st.Version >= tls.VersionTLS13 {
			return nil, fmt.Errorf("tls-unique is not defined for TLS 1.3 (RFC 9266)")
		}
		if len(st.TLSUnique) == 0 {
			return nil, fmt.Errorf("no tls-unique value")
		}
		return st.TLSUnique, nil
	case "tls-exporter":
		return st.ExportKeyingMaterial("EXPORTER-Channel-Binding", []byte{}, 32)
	}
	return nil, fmt.Errorf("unsupported channel binding type %q", typ)
}

func decodeSaslname(s string) (string, bool) {
	var b strings.Builder
	for i := 0; i < len(s); i++ {
		switch s[i] {
		case ',':
			return "", false
		case '=':
			if strings.HasPrefix(s[i:], "=2C") {
				b.WriteByte(',')
				i += 2
			} else if strings.HasPrefix(s[i:], "=3D") {
				b.WriteByte('=')
				i += 2
			} else {
				return "", false
			}
		default:
			b.WriteByte(s[i])
		}
	}
	return b.String(), true
}

func (s *scramSrv) fail(f string, a ...any) StepOut {
	return StepOut{Done: true, Reason: fmt.Sprintf(f, a...)}
}

func (s *scramSrv) Cancelled() {}
func (s *scramSrv) Step(resp []byte, has bool) StepOut {
	switch s.step {
	case 0:
		if !has || len(resp) == 0 {
			if s.first == "sent-empty" {
				return s.fail("no client-first message")
			}
			s.first = "sent-empty"
			return StepOut{Challenge: nil}
		}
		return s.clientFirst(string(resp))
	case 1:
		return s.clientFinal(string(resp))
	case 2:
		// the client acknowledges server-final with an empty response
		if len(resp) != 0 {
			return s.fail("non-empty response after server-final")
		}
		return StepOut{Done: true, OK: true, User: s.a.User, Note: "client acknowledged server-final"}
	}
	return s.fail("unexpected step")
}

func (s *scramSrv) clientFirst(m string) StepOut {
	if !utf8.ValidString(m) {
		return s.fail("client-first is not UTF-8")
	}
	// gs2-header = gs2-cbind-flag "," [authzid] ","
	f := strings.SplitN(m, ",", 3)
	if len(f) != 3 {
		return s.fail("client-first has no gs2 header")
	}
	flag, authz, bare := f[0], f[1], f[2]
	switch {
	case flag == "n" || flag == "y":
		if s.plus {
			return s.fail("-PLUS mechanism selected but gs2 flag is %q", flag)
		}
	case strings.HasPrefix(flag, "p="):
		if !s.plus {
			return s.fail("channel binding requested on a non-PLUS mechanism")
		}
		s.cbTyp = flag[2:]
	default:
		return s.fail("bad gs2-cbind-flag %q", flag)
	}
	if authz != "" && !strings.HasPrefix(authz, "a=") {
		return s.fail("bad authzid field %q", authz)
	}
	s.gs2 = flag + "," + authz + ","
	s.bare = bare
	// client-first-message-bare = [reserved-mext ","] username "," nonce ["," extensions]
	attrs := strings.Split(bare, ",")
	if len(attrs) < 2 || !strings.HasPrefix(attrs[0], "n=") || !strings.HasPrefix(attrs[1], "r=") {
		return s.fail("client-first-bare is not n=..,r=..: %q", bare)
	}
	user, ok := decodeSaslname(attrs[0][2:])
	if !ok || user == "" {
		return s.fail("bad saslname %q", attrs[0][2:])
	}
	cn := attrs[1][2:]
	if cn == "" {
		return s.fail("empty client nonce")
	}
	for i := 0; i < len(cn); i++ {
		if cn[i] < 0x21 || cn[i] > 0x7e || cn[i] == ',' {
			return s.fail("client nonce contains non-printable or ','")
		}
	}
	for _, ext := range attrs[2:] {
		if len(ext) < 2 || ext[1] != '=' {
			return s.fail("bad extension %q", ext)
		}
		if ext[0] == 'm' {
			return s.fail("mandatory extension not supported")
		}
	}
	s.ClientNonce = cn
	if !eq(user, s.a.User) {
		// a real server would continue with a fake salt; the reference simply fails
		return s.fail("unknown user %q", user)
	}
	suffix := s.a.NonceSuffix
	if suffix == "" {
		suffix = "3rfcNHYJY1ZVvWVs7j"
	}
	s.nonce = cn + suffix
	iter := s.a.iterFor(s.sess)
	if iter <= 0 {
		iter = 4096
	}
	s.first = "r=" + s.nonce + ",s=" + base64.StdEncoding.EncodeToString(s.a.Salt) + ",i=" + strconv.Itoa(iter) + s.a.FirstExt
	s.step = 1
	return StepOut{Challenge: []byte(s.first), Note: "client-first ok nonce=" + cn}
}

func (s *scramSrv) clientFinal(m string) StepOut {
	// client-final-message = channel-binding "," nonce ["," extensions] "," proof
	i := strings.LastIndex(m, ",p=")
	if i < 0 {
		return s.fail("client-final has no proof")
	}
	without, proof64 := m[:i], m[i+3:]
	attrs := strings.Split(without, ",")
	if len(attrs) < 2 || !strings.HasPrefix(attrs[0], "c=") || !strings.HasPrefix(attrs[1], "r=") {
		return s.fail("client-final is not c=..,r=..: %q", without)
	}
	cb, err := base64.StdEncoding.DecodeString(attrs[0][2:])
	if err != nil {
		return s.fail("c= is not base64")
	}
	want := []byte(s.gs2)
	if s.plus {
		var st *tls.ConnectionState
		if s.sess != nil {
			st = s.sess.TLSState
		}
		data, err := ChannelBinding(st, s.cbTyp)
		if err != nil {
			return s.fail("channel binding: %v", err)
		}
		if st.Version >= tls.VersionTLS13 && s.cbTyp != "tls-exporter" {
			return s.fail("TLS 1.3 needs tls-exporter")
		}
		if st.Version < tls.VersionTLS13 && s.cbTyp != "tls-unique" {
			// the type this verifier offers below TLS 1.3 (RFC 5929; also on resumed sessions,
			// whose Finished messages are as unique as those of a full handshake)
			return s.fail("channel binding: below TLS 1.3 this server supports tls-unique only, the client used %s", s.cbTyp)
		}
		want = append(want, data...)
	}
	if !bytes.Equal(cb, want) {
		return s.fail("channel-binding field does not match gs2 header/binding data of this connection")
	}
	if attrs[1][2:] != s.nonce {
		return s.fail("nonce in client-final differs from server-first")
	}
	proof, err := base64.StdEncoding.DecodeString(proof64)
	if err != nil {
		return s.fail("proof is not base64")
	}
	iter := s.a.iterFor(s.sess)
	if iter <= 0 {
		iter = 4096
	}
	_, stored, serverKey := ScramKeys(s.h, s.a.Pass, s.a.Salt, iter)
	authMsg := []byte(s.bare + "," + s.first + "," + without)
	sig := hm(s.h, stored, authMsg)
	if len(proof) != len(sig) {
		return s.fail("proof has wrong length")
	}
	ck := make([]byte, len(sig))
	for i := range sig {
		ck[i] = proof[i] ^ sig[i]
	}
	hh := s.h()
	hh.Write(ck)
	if subtle.ConstantTimeCompare(hh.Sum(nil), stored) != 1 {
		return s.fail("invalid proof (bad credentials)")
	}
	s.step = 2
	ss := hm(s.h, serverKey, authMsg)
	if s.sess != nil {
		s.sess.srv.LastHonestFinal = "v=" + base64.StdEncoding.EncodeToString(ss)
	}
	return StepOut{Challenge: []byte("v=" + base64.StdEncoding.EncodeToString(ss)), Note: "proof ok"}
}

// SelfTest validates the reference implementations on the RFCs' own examples. A non-nil error
// means the reference is broken and no verdict may be trusted (exit 2).
func SelfTest() error {
	// RFC 2195 §2
	if d := CramDigest("tanstaaftanstaaf", "<1896.697170952@postoffice.reston.mci.net>"); d != "b913a602c7eda7a495b4e6e7334d3890" {
		return fmt.Errorf("CRAM-MD5 vector: %s", d)
	}
	type vec struct {
		h                                  func() hash.Hash
		mech, user, pass, cn, suffix, salt string
		iter                               int
		proof, sig                         string
	}
	vecs := []vec{
		{sha1.New, "SCRAM-SHA-1", "user", "pencil", "fyko+d2lbbFgONRv9qkxdawL", "3rfcNHYJY1ZVvWVs7j", "QSXCR+Q6sek8bf92", 4096,
			"v0X8v3Bz2T0CJGbJQyF0X+HI4Ts=", "rmF9pqV8S7suAoZWja4dJRkFsKQ="},
		{sha256.New, "SCRAM-SHA-256", "user", "pencil", "rOprNGfwEbeRWgbNEkqO", "%hvYDpWUa2RaTCAfuxFIlj)hNlF$k0", "W22ZaJ0SNY7soEsUEjb6gQ==", 4096,
			"dHzbZapWIk4jUhN+Ute9ytag9zjfMHgsqmmiz7AndVQ=", "6rriTRBi23WpRR/wtup+mMhUZUn/dB5nLTJRsjl95G4="},
	}
	for _, v := range vecs {
		salt, _ := base64.StdEncoding.DecodeString(v.salt)
		a := AuthCfg{User: v.user, Pass: v.pass, Salt: salt, Iter: v.iter, NonceSuffix: v.suffix}
		srv := a.newServer(v.mech, nil).(*scramSrv)
		o := srv.Step([]byte("n,,n="+v.user+",r="+v.cn), true)
		if o.Done {
			return fmt.Errorf("%s vector: client-first refused: %s", v.mech, o.Reason)
		}
		o = srv.Step([]byte("c=biws,r="+v.cn+v.suffix+",p="+v.proof), true)
		if o.Done {
			return fmt.Errorf("%s vector: client-final refused: %s", v.mech, o.Reason)
		}
		if string(o.Challenge) != "v="+v.sig {
			return fmt.Errorf("%s vector: server signature %s", v.mech, o.Challenge)
		}
		// and a wrong proof must be refused
		srv = a.newServer(v.mech, nil).(*scramSrv)
		srv.Step([]byte("n,,n="+v.user+",r="+v.cn), true)
		bad := []byte(v.proof)
		bad[3] ^= 1
		if o = srv.Step([]byte("c=biws,r="+v.cn+v.suffix+",p="+string(bad)), true); !o.Done || o.OK {
			return fmt.Errorf("%s: wrong proof accepted", v.mech)
		}
	}
	// RFC 4616 §4 example: authzid empty, "tim", "tanstaaftanstaaf"
	p := AuthCfg{User: "tim", Pass: "tanstaaftanstaaf"}.newServer("PLAIN", nil)
	if o := p.Step([]byte("\x00tim\x00tanstaaftanstaaf"), true); !o.OK {
		return fmt.Errorf("PLAIN vector refused: %s", o.Reason)
	}
	// RFC 5321 path grammar examples
	for _, ok := range []string{"<user@example.com>", "<\"a b\"@example.com>", "<\"a\\\"b\"@example.com>", "<a.b-c@[127.0.0.1]>", "<x@a-b.example>"} {
		if _, rest, errs := parsePath(ok, false); len(errs) > 0 || rest != "" {
			return fmt.Errorf("path %s refused: %v", ok, errs)
		}
	}
	for _, bad := range []string{"<a b@example.com>", "<a@b@example.com>", "<a@example.com", "<a,b@example.com>", "<.a@example.com>", "<a..b@example.com>", "<a@-x.example>", "<a@example..com>", "<a<b@example.com>"} {
		if _, _, errs := parsePath(bad, false); len(errs) == 0 {
			return fmt.Errorf("path %s accepted", bad)
		}
	}
	if p, _, errs := parsePath(`<"a\"b c"@example.com>`, false); len(errs) > 0 || p.Local != `a"b c` {
		return fmt.Errorf("quoted path unquoting: %q %v", p.Local, errs)
	}
	return nil
}
