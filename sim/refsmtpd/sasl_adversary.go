package refsmtpd

import (
	"crypto/sha1"
	"crypto/sha256"
	"encoding/base64"
	"hash"
	"strconv"
	"strings"
)

// The scripted SCRAM adversary of C15. It knows everything an attacker on the wire or a rogue
// server knows — and, so that the property's "valid" messages can be produced at all, it can be
// told to play the honest server's messages too. Alphabet (one symbol per server message):
//
//	first-ok       valid server-first for the running exchange (client nonce + suffix, salt, count)
//	first-foreign  server-first whose nonce does not extend the client's nonce
//	first-prefix   server-first whose nonce is the first half of the client's nonce, nothing more
//	junk-prompt    "Username:" — text that is no attribute list at all
//	first-trunc    server-first whose nonce is a proper prefix of the client's nonce plus a suffix
//	first-malformed server-first with broken salt/iteration fields
//	final-ok       the valid server-final of the running exchange (only computable after first-ok
//	               and a client-final; otherwise it degrades to final-other and is traced as such)
//	final-prev     the server-final that was valid for the previous, abandoned exchange of this
//	               connection (the client restarted after an empty challenge); degrades to
//	               final-other when there is no such exchange
//	first-iter0    server-first with the right nonce and salt but iteration count 0
//	final-zerokey  a server-final computed with an all-zero salted password over this exchange's
//	               messages (what an attacker can compute if the client's key derivation
//	               degenerates)
//	final-emptypw  a server-final computed with the salted EMPTY password over this exchange's
//	               messages (valid only for a client whose password is empty)
//	final-blank    the server-final "v=" with an empty verifier
//	final-error    the server-final "e=other-error" (a server-error value instead of a verifier)
//	final-other    a well-formed server-final computed with another key
//	final-empty    a server-final computed over empty client state (no salted password, no
//	               auth message): HMAC(HMAC("", "Server Key"), "")
//	empty          an empty challenge
//	junk           a challenge that is neither r=.. nor v=..
//	first-ok-ext   a valid server-first with an optional extension attribute after the iteration
//	               count (",x=ext"); the AuthMessage contains it as sent
//	final-noext    a server-final signed with the right key over the exchange's messages with
//	               that extension attribute left out: valid only if there was none
//	final-lastconn the server-final an honest server sent on an earlier connection (a recorded
//	               signature, replayed); degrades to final-other when there was none
//	hangup         the connection is dropped instead of an answer
//	235            authentication successful
//	535            authentication failed
type AdvStep struct {
	Sym       string `json:"sym"`      // symbol actually played
	Valid     bool   `json:"valid"`    // first-ok / final-ok that is valid for the running exchange
	ClientMsg string `json:"client"`   // class of the client's answer: first | final | empty | cancel | other | none
	Exchange  int    `json:"exchange"` // index of the running exchange (incremented by every client-first)
}

type adversary struct {
	a     AuthCfg
	h     func() hash.Hash
	plus  bool
	sess  *Session
	pos   int
	Trace []AdvStep
	exch  int
	cn    string
	bare  string
	first string // valid server-first sent in this exchange ("" if none)
	final string // client-final-without-proof received after the valid server-first
	// the previous exchange, as far as it got
	prevBare, prevFirst, prevFinal string
	iter0First                     string // the i=0 server-first of this exchange, if one was sent
	lastFinal                      string // the latest client-final-without-proof, whatever preceded it
}

func newAdversary(a AuthCfg, mech string, s *Session) *adversary {
	ad := &adversary{a: a, sess: s, plus: strings.HasSuffix(mech, "-PLUS"), h: sha256.New}
	if strings.Contains(mech, "SHA-1") {
		ad.h = sha1.New
	}
	if s != nil {
		s.srv.Adversaries = append(s.srv.Adversaries, ad)
	}
	return ad
}

// AdvTrace returns the traces of all adversarial exchanges of the run.
func (srv *Server) AdvTrace() [][]AdvStep {
	var out [][]AdvStep
	for _, a := range srv.Adversaries {
		out = append(out, a.Trace)
	}
	return out
}

func (ad *adversary) classify(resp []byte, has bool) string {
	s := string(resp)
	switch {
	case !has:
		return "none"
	case strings.HasPrefix(s, "n,,") || strings.HasPrefix(s, "y,,") || strings.HasPrefix(s, "p="):
		ad.exch++
		f := strings.SplitN(s, ",", 3)
		if ad.first != "" && ad.final != "" {
			ad.prevBare, ad.prevFirst, ad.prevFinal = ad.bare, ad.first, ad.final
		}
		ad.bare, ad.cn, ad.first, ad.final, ad.iter0First, ad.lastFinal = "", "", "", "", "", ""
		if len(f) == 3 {
			ad.bare = f[2]
			for _, at := range strings.Split(f[2], ",") {
				if strings.HasPrefix(at, "r=") {
					ad.cn = at[2:]
				}
			}
		}
		return "first"
	case strings.HasPrefix(s, "c="):
		if i := strings.LastIndex(s, ",p="); i >= 0 {
			ad.lastFinal = s[:i]
			if ad.first != "" {
				ad.final = s[:i]
			}
		}
		return "final"
	case len(resp) == 0:
		return "empty"
	}
	return "other"
}

func (ad *adversary) Cancelled() {
	if n := len(ad.Trace); n > 0 {
		ad.Trace[n-1].ClientMsg = "cancel"
	}
}

func (ad *adversary) iter() int {
	if ad.a.Iter > 0 {
		return ad.a.Iter
	}
	return 4096
}

func (ad *adversary) Step(resp []byte, has bool) StepOut {
	cls := ad.classify(resp, has)
	if n := len(ad.Trace); n > 0 {
		ad.Trace[n-1].ClientMsg = cls
	}
	if ad.pos >= len(ad.a.Adversary) {
		ad.Trace = append(ad.Trace, AdvStep{Sym: "535", Exchange: ad.exch, ClientMsg: "none"})
		return StepOut{Done: true, Reason: "adversary script exhausted"}
	}
	sym := ad.a.Adversary[ad.pos]
	ad.pos++
	salt64 := base64.StdEncoding.EncodeToString(ad.a.Salt)
	suffix := ad.a.NonceSuffix
	if suffix == "" {
		suffix = "SrvNonce"
	}
	st := AdvStep{Sym: sym, Exchange: ad.exch, ClientMsg: "none"}
	var msg string
	switch sym {
	case "first-ok":
		if ad.cn != "" {
			msg = "r=" + ad.cn + suffix + ",s=" + salt64 + ",i=" + strconv.Itoa(ad.iter())
			ad.first = msg
			ad.final = ""
			st.Valid = true
		} else {
			// no client-first seen yet: nothing can be valid; play a foreign nonce
			msg = "r=QWxsIHlvdXIgYmFzZQ" + suffix + ",s=" + salt64 + ",i=" + strconv.Itoa(ad.iter())
			st.Sym = "first-foreign"
		}
	case "first-ok-ext":
		if ad.cn != "" {
			msg = "r=" + ad.cn + suffix + ",s=" + salt64 + ",i=" + strconv.Itoa(ad.iter()) + ",x=ext"
			ad.first = msg
			ad.final = ""
			st.Valid = true
			st.Sym = "first-ok" // a valid server-first like any other, as far as the oracle goes
		} else {
			msg = "r=QWxsIHlvdXIgYmFzZQ" + suffix + ",s=" + salt64 + ",i=" + strconv.Itoa(ad.iter()) + ",x=ext"
			st.Sym = "first-foreign"
		}
	case "final-noext":
		if ad.first != "" && ad.final != "" {
			_, _, sk := ScramKeys(ad.h, ad.a.Pass, ad.a.Salt, ad.iter())
			stripped := strings.TrimSuffix(ad.first, ",x=ext")
			msg = "v=" + base64.StdEncoding.EncodeToString(hm(ad.h, sk, []byte(ad.bare+","+stripped+","+ad.final)))
			if stripped == ad.first {
				st.Valid = true
				st.Sym = "final-ok"
			}
		} else {
			st.Sym = "final-other"
			_, _, sk := ScramKeys(ad.h, "some-other-password", []byte("othersalt"), 2)
			msg = "v=" + base64.StdEncoding.EncodeToString(hm(ad.h, sk, []byte("another exchange")))
		}
	case "first-foreign":
		// a nonce of exactly the length of the client's, sharing no prefix with it (a foreign
		// nonce that is longer or shorter is first-trunc's and first-ok's neighbourhood)
		foreign := []byte("Zm9yZWlnbi1ub25jZS1mb3JlaWdu")
		if ad.cn != "" {
			foreign = []byte(ad.cn)
			for i, c := range foreign {
				foreign[i] = 'A' + (c+7)%26
				if foreign[i] == c {
					foreign[i] = 'z'
				}
			}
		}
		msg = "r=" + string(foreign) + suffix + ",s=" + salt64 + ",i=" + strconv.Itoa(ad.iter())
		ad.first = ""
	case "first-trunc":
		cn := ad.cn
		if len(cn) > 4 {
			cn = cn[:len(cn)/2]
		} else {
			cn = ""
		}
		msg = "r=" + cn + suffix + ",s=" + salt64 + ",i=" + strconv.Itoa(ad.iter())
		ad.first = ""
	case "first-prefix":
		// nothing but the beginning of the client's own nonce: no server part at all, and not
		// even the whole client part (a comparison limited to the shorter of the two passes)
		msg = "r=" + ad.cn[:len(ad.cn)/2] + ",s=" + salt64 + ",i=" + strconv.Itoa(ad.iter())
		ad.first = ""
	case "first-malformed":
		msg = "r=" + ad.cn + suffix + ",s=***not-base64***,i=many"
		ad.first = ""
	case "final-ok":
		if ad.first != "" && ad.final != "" {
			_, _, sk := ScramKeys(ad.h, ad.a.Pass, ad.a.Salt, ad.iter())
			msg = "v=" + base64.StdEncoding.EncodeToString(hm(ad.h, sk, []byte(ad.bare+","+ad.first+","+ad.final)))
			st.Valid = true
		} else {
			st.Sym = "final-other"
			_, _, sk := ScramKeys(ad.h, "some-other-password", []byte("othersalt"), 2)
			msg = "v=" + base64.StdEncoding.EncodeToString(hm(ad.h, sk, []byte("another exchange")))
		}
	case "final-prev":
		if ad.prevFirst != "" {
			_, _, sk := ScramKeys(ad.h, ad.a.Pass, ad.a.Salt, ad.iter())
			msg = "v=" + base64.StdEncoding.EncodeToString(hm(ad.h, sk, []byte(ad.prevBare+","+ad.prevFirst+","+ad.prevFinal)))
		} else {
			st.Sym = "final-other"
			_, _, sk := ScramKeys(ad.h, "some-other-password", ad.a.Salt, ad.iter())
			msg = "v=" + base64.StdEncoding.EncodeToString(hm(ad.h, sk, []byte(ad.bare+","+ad.first+","+ad.final)))
		}
	case "first-iter0":
		if ad.cn != "" {
			msg = "r=" + ad.cn + suffix + ",s=" + salt64 + ",i=0"
			// not a valid server-first (RFC 5802: the count is a positive number); remembered so
			// that the zero-key signature below is computed over this exchange
			ad.first, ad.final = "", ""
			ad.iter0First = msg
		} else {
			msg = "r=Zm9yZWlnbg" + suffix + ",s=" + salt64 + ",i=0"
		}
	case "final-zerokey":
		zero := make([]byte, ad.h().Size())
		sk := hm(ad.h, zero, []byte("Server Key"))
		first := ad.first
		if first == "" {
			first = ad.iter0First
		}
		msg = "v=" + base64.StdEncoding.EncodeToString(hm(ad.h, sk, []byte(ad.bare+","+first+","+ad.lastFinal)))
	case "final-lastconn":
		if ad.sess != nil && ad.sess.srv.LastHonestFinal != "" {
			msg = ad.sess.srv.LastHonestFinal
		} else {
			st.Sym = "final-other"
			_, _, sk := ScramKeys(ad.h, "some-other-password", ad.a.Salt, ad.iter())
			msg = "v=" + base64.StdEncoding.EncodeToString(hm(ad.h, sk, []byte(ad.bare+","+ad.first+","+ad.final)))
		}
	case "final-emptypw":
		// the server-final an impostor can compute who assumes that the client's key derivation
		// ran over the empty password (salt and iteration count are the impostor's own)
		_, _, sk := ScramKeys(ad.h, "", ad.a.Salt, ad.iter())
		first := ad.first
		if first == "" {
			first = ad.iter0First
		}
		msg = "v=" + base64.StdEncoding.EncodeToString(hm(ad.h, sk, []byte(ad.bare+","+first+","+ad.lastFinal)))
	case "final-blank":
		msg = "v="
	case "final-error":
		// the server-error form of the server-final message (RFC 5802 section 7): it proves
		// nothing, whatever the server sends after it
		msg = "e=other-error"
	case "final-other":
		_, _, sk := ScramKeys(ad.h, "some-other-password", ad.a.Salt, ad.iter())
		msg = "v=" + base64.StdEncoding.EncodeToString(hm(ad.h, sk, []byte(ad.bare+","+ad.first+","+ad.final)))
	case "final-empty":
		sk := hm(ad.h, nil, []byte("Server Key"))
		msg = "v=" + base64.StdEncoding.EncodeToString(hm(ad.h, sk, nil))
	case "empty":
		msg = ""
	case "junk":
		msg = "x=hello,this is junk"
	case "junk-prompt":
		// text that does not even look like an attribute list (the prompt of another mechanism)
		msg = "Username:"
	case "hangup":
		ad.Trace = append(ad.Trace, st)
		return StepOut{Hangup: true}
	case "235":
		ad.Trace = append(ad.Trace, st)
		return StepOut{Done: true, OK: true, User: "adversary-says-yes"}
	case "535":
		ad.Trace = append(ad.Trace, st)
		return StepOut{Done: true, Reason: "adversary says no"}
	default:
		ad.Trace = append(ad.Trace, AdvStep{Sym: "535"})
		return StepOut{Done: true, Reason: "unknown adversary symbol " + sym}
	}
	ad.Trace = append(ad.Trace, st)
	return StepOut{Challenge: []byte(msg)}
}
