// Package refsmtpd is the strict reference SMTP server of the simulation: a session automaton
// written from RFC 5321 (§4.1.1 grammar, §4.1.4 order of commands, §4.5.3 limits), RFC 1652, 6531,
// 3461, 2034, 3207 and 4954 — not from go-mail's tests. It answers from a scenario-given reply
// script, records everything it sees, and flags everything a strict MTA would refuse.
package refsmtpd

import (
	"fmt"
	"strings"
	"unicode/utf8"
)

// Path is a parsed RFC 5321 reverse-/forward-path.
type Path struct {
	Null   bool   `json:"null,omitempty"`   // "<>"
	Local  string `json:"local,omitempty"`  // local part after unquoting
	Domain string `json:"domain,omitempty"` // domain or address literal, as written
	Quoted bool   `json:"quoted,omitempty"` // local part was a quoted-string
	UTF8   bool   `json:"utf8,omitempty"`   // contains non-ASCII
	Raw    string `json:"raw"`
}

// Mailbox returns local@domain with the local part unquoted.
func (p Path) Mailbox() string {
	if p.Null {
		return ""
	}
	return p.Local + "@" + p.Domain
}

// Param is one esmtp-param.
type Param struct {
	Key string `json:"k"`
	Val string `json:"v,omitempty"`
	Has bool   `json:"has,omitempty"` // "=" present
}

// Cmd is one parsed command line.
type Cmd struct {
	Verb   string  `json:"verb"` // upper-cased; "" if unrecognisable
	Arg    string  `json:"arg,omitempty"`
	Path   *Path   `json:"path,omitempty"`
	Params []Param `json:"params,omitempty"`
	// Syntax lists every way in which the line departs from the grammar (empty: well-formed).
	Syntax []string `json:"syntax,omitempty"`
}

func isAlpha(c byte) bool { return c|0x20 >= 'a' && c|0x20 <= 'z' }
func isDigit(c byte) bool { return c >= '0' && c <= '9' }
func isAtext(c byte) bool {
	if isAlpha(c) || isDigit(c) {
		return true
	}
	return strings.IndexByte("!#$%&'*+-/=?^_`{|}~", c) >= 0
}

// parsePath parses "<...>" at the start of s and returns the rest of the line.
func parsePath(s string, allowNull bool) (p Path, rest string, errs []string) {
	bad := func(f string, a ...any) { errs = append(errs, fmt.Sprintf(f, a...)) }
	if len(s) == 0 || s[0] != '<' {
		bad("path does not start with '<'")
		return p, "", errs
	}
	i := 1
	if i < len(s) && s[i] == '>' {
		p.Null = true
		p.Raw = "<>"
		if !allowNull {
			bad("null path not allowed here")
		}
		return p, s[2:], errs
	}
	// optional source route "@a,@b:" is obsolete; a strict modern server flags it
	if i < len(s) && s[i] == '@' {
		bad("source route")
		j := strings.IndexByte(s[i:], ':')
		if j < 0 {
			return p, "", errs
		}
		i += j + 1
	}
	// Local-part
	var local strings.Builder
	if i < len(s) && s[i] == '"' {
		p.Quoted = true
		i++
		closed := false
		for i < len(s) {
			c := s[i]
			if c == '"' {
				closed = true
				i++
				break
			}
			if c == '\\' {
				if i+1 >= len(s) {
					bad("dangling backslash in quoted local part")
					i++
					break
				}
				d := s[i+1]
				if d < 32 || d > 126 {
					bad("quoted-pair with byte %#x", d)
				}
				local.WriteByte(d)
				i += 2
				continue
			}
			if c >= 0x80 {
				r, n := utf8.DecodeRuneInString(s[i:])
				if r == utf8.RuneError && n == 1 {
					bad("invalid UTF-8 in local part")
				}
				p.UTF8 = true
				local.WriteString(s[i : i+n])
				i += n
				continue
			}
			if c < 32 || c == 127 {
				bad("control byte %#x in quoted local part", c)
			}
			local.WriteByte(c)
			i++
		}
		if !closed {
			bad("unterminated quoted local part")
		}
	} else {
		start := i
		lastDot := true // a leading dot is an error
		for i < len(s) {
			c := s[i]
			if c == '@' || c == '>' {
				break
			}
			if c == '.' {
				if lastDot {
					bad("empty atom in dot-string local part")
				}
				lastDot = true
				local.WriteByte(c)
				i++
				continue
			}
			if c >= 0x80 {
				r, n := utf8.DecodeRuneInString(s[i:])
				if r == utf8.RuneError && n == 1 {
					bad("invalid UTF-8 in local part")
				}
				p.UTF8 = true
				local.WriteString(s[i : i+n])
				i += n
				lastDot = false
				continue
			}
			if !isAtext(c) {
				bad("byte %q not allowed in unquoted local part", c)
			}
			local.WriteByte(c)
			lastDot = false
			i++
		}
		if i == start {
			bad("empty local part")
		} else if lastDot {
			bad("local part ends in a dot")
		}
	}
	p.Local = local.String()
	if len(p.Local) > 64 {
		bad("local part longer than 64 octets")
	}
	if i >= len(s) || s[i] != '@' {
		bad("missing '@' after local part")
		j := strings.IndexByte(s[i:], '>')
		if j < 0 {
			p.Raw = s
			return p, "", errs
		}
		p.Raw = s[:i+j+1]
		return p, s[i+j+1:], errs
	}
	i++
	// Domain or address literal
	ds := i
	if i < len(s) && s[i] == '[' {
		j := strings.IndexByte(s[i:], ']')
		if j < 0 {
			bad("unterminated address literal")
			j = len(s) - i - 1
		}
		i += j + 1
	} else {
		labelStart := i
		for i < len(s) && s[i] != '>' {
			c := s[i]
			switch {
			case c == '.':
				if i == labelStart {
					bad("empty domain label")
				} else if s[i-1] == '-' {
					bad("domain label ends in '-'")
				}
				labelStart = i + 1
			case c >= 0x80:
				r, n := utf8.DecodeRuneInString(s[i:])
				if r == utf8.RuneError && n == 1 {
					bad("invalid UTF-8 in domain")
				}
				p.UTF8 = true
				i += n - 1
			case isAlpha(c) || isDigit(c):
			case c == '-':
				if i == labelStart {
					bad("domain label starts with '-'")
				}
			default:
				bad("byte %q not allowed in domain", c)
			}
			i++
		}
		if i == ds {
			bad("empty domain")
		} else if i == labelStart {
			bad("domain ends in a dot")
		} else if s[i-1] == '-' {
			bad("domain label ends in '-'")
		}
	}
	p.Domain = s[ds:i]
	if len(p.Domain) > 255 {
		bad("domain longer than 255 octets")
	}
	if i >= len(s) || s[i] != '>' {
		bad("missing '>'")
		p.Raw = s
		return p, "", errs
	}
	p.Raw = s[:i+1]
	return p, s[i+1:], errs
}

func parseParams(s string) (ps []Param, errs []string) {
	if s == "" {
		return nil, nil
	}
	if s[0] != ' ' {
		return nil, []string{fmt.Sprintf("junk after path: %q", s)}
	}
	for _, f := range strings.Split(s[1:], " ") {
		if f == "" {
			errs = append(errs, "empty parameter (doubled or trailing blank)")
			continue
		}
		k, v, has := strings.Cut(f, "=")
		p := Param{Key: strings.ToUpper(k), Val: v, Has: has}
		if k == "" || !(isAlpha(k[0]) || isDigit(k[0])) {
			errs = append(errs, fmt.Sprintf("bad esmtp-keyword %q", k))
		}
		for i := 0; i < len(k); i++ {
			if !(isAlpha(k[i]) || isDigit(k[i]) || k[i] == '-') {
				errs = append(errs, fmt.Sprintf("bad esmtp-keyword %q", k))
				break
			}
		}
		if has && v == "" {
			errs = append(errs, fmt.Sprintf("empty esmtp-value for %s", k))
		}
		for i := 0; i < len(v); i++ {
			if v[i] < 33 || v[i] > 126 || v[i] == '=' {
				errs = append(errs, fmt.Sprintf("byte %q not allowed in esmtp-value of %s", v[i], k))
				break
			}
		}
		ps = append(ps, p)
	}
	return
}

func validDomainArg(s string) []string {
	if s == "" {
		return []string{"empty domain argument"}
	}
	if s[0] == '[' {
		if s[len(s)-1] != ']' {
			return []string{"unterminated address literal"}
		}
		return nil
	}
	var errs []string
	for _, l := range strings.Split(s, ".") {
		if l == "" {
			errs = append(errs, "empty domain label")
			continue
		}
		if l[0] == '-' || l[len(l)-1] == '-' {
			errs = append(errs, "domain label starts or ends with '-'")
		}
		for i := 0; i < len(l); i++ {
			c := l[i]
			if !(isAlpha(c) || isDigit(c) || c == '-' || c >= 0x80) {
				errs = append(errs, fmt.Sprintf("byte %q not allowed in domain", c))
				break
			}
		}
	}
	return errs
}

// ParseCommand parses one command line (without its CRLF).
func ParseCommand(line string) Cmd {
	var c Cmd
	bad := func(f string, a ...any) { c.Syntax = append(c.Syntax, fmt.Sprintf(f, a...)) }
	for i := 0; i < len(line); i++ {
		if line[i] == 0 {
			bad("NUL byte")
			break
		}
		if line[i] == '\r' || line[i] == '\n' {
			bad("bare CR or LF inside the line")
			break
		}
	}
	if len(line) > 510 {
		bad("command line longer than 512 octets")
	}
	up := strings.ToUpper(line)
	switch {
	case strings.HasPrefix(up, "MAIL FROM:"):
		c.Verb = "MAIL"
		c.Arg = line[len("MAIL FROM:"):]
		p, rest, errs := parsePath(c.Arg, true)
		c.Path = &p
		c.Syntax = append(c.Syntax, errs...)
		ps, perrs := parseParams(rest)
		c.Params = ps
		c.Syntax = append(c.Syntax, perrs...)
		return c
	case strings.HasPrefix(up, "RCPT TO:"):
		c.Verb = "RCPT"
		c.Arg = line[len("RCPT TO:"):]
		p, rest, errs := parsePath(c.Arg, false)
		c.Path = &p
		c.Syntax = append(c.Syntax, errs...)
		ps, perrs := parseParams(rest)
		c.Params = ps
		c.Syntax = append(c.Syntax, perrs...)
		return c
	}
	verb, arg, hasArg := strings.Cut(line, " ")
	c.Verb = strings.ToUpper(verb)
	c.Arg = arg
	switch c.Verb {
	case "EHLO", "HELO":
		if !hasArg {
			bad("%s without argument", c.Verb)
		} else {
			c.Syntax = append(c.Syntax, validDomainArg(arg)...)
		}
	case "DATA", "RSET", "QUIT", "STARTTLS":
		if hasArg {
			bad("%s takes no argument, got %q", c.Verb, arg)
		}
	case "NOOP":
	case "AUTH":
		f := strings.Split(arg, " ")
		if !hasArg || f[0] == "" {
			bad("AUTH without mechanism")
		}
		if len(f) > 2 {
			bad("AUTH with more than two arguments")
		}
		for _, x := range f {
			if x == "" && hasArg {
				bad("AUTH with empty argument (doubled or trailing blank)")
			}
		}
	case "VRFY", "EXPN", "HELP":
	case "MAIL", "RCPT":
		bad("%s without FROM:/TO:", c.Verb)
	default:
		bad("unknown command verb %q", verb)
		c.Verb = ""
	}
	return c
}
